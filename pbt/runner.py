"""Parent process of a check: shards, merge, evidence, VIOLATION / KNOWN-FINDING lines.

usage: python -m pbt.runner <ID> [--tier quick|thorough] [--replay FILE] [--shards N]
exit 0: property held on everything explored (known findings are printed, not alarmed)
exit 1: VIOLATION property=<ID> replay=<path>
exit 2: harness error (nothing is claimed)
"""
import argparse
import hashlib
import json
import os
import shutil
import subprocess
import sys
import time

from .common import lib

PY = sys.executable


def _env():
    env = dict(os.environ)
    env["PYTHONHASHSEED"] = "0"
    env["NUMBA_CACHE_DIR"] = lib.cache_dir()
    env["PYTHONPATH"] = lib.VERIF_DIR + os.pathsep + os.path.join(lib.VERIF_DIR, ".deps") + os.pathsep + env.get("PYTHONPATH", "")
    env["PYTHONDONTWRITEBYTECODE"] = "1"
    env["NUMBA_NUM_THREADS"] = "1"
    env["OMP_NUM_THREADS"] = "1"
    env["OPENBLAS_NUM_THREADS"] = "1"
    env["MKL_NUM_THREADS"] = "1"
    return env


def warm_cache(env):
    """JIT-compile the 47 metrics once per source tree (16 processes, disjoint subsets)."""
    cdir = env["NUMBA_CACHE_DIR"]
    marker = os.path.join(cdir, "WARM")
    if os.path.exists(marker):
        return 0.0
    t0 = time.time()
    base = os.path.dirname(cdir)
    os.makedirs(base, exist_ok=True)
    # drop caches of other trees once they are stale (disk is limited); recent ones may belong to a concurrently running check
    for d in os.listdir(base):
        p = os.path.join(base, d)
        try:
            stale = (time.time() - os.path.getmtime(p)) > 3 * 3600
        except OSError:
            stale = False
        if p != cdir and stale:
            shutil.rmtree(p, ignore_errors=True)
    os.makedirs(cdir, exist_ok=True)
    n = 16
    procs = [
        subprocess.Popen([PY, "-m", "pbt.common.warm", str(i), str(n)], env=env, cwd=lib.VERIF_DIR,
                         stdout=subprocess.DEVNULL, stderr=subprocess.DEVNULL)
        for i in range(n)
    ]
    for p in procs:
        p.wait()
    # a failing warm-up is not fatal (a broken metric shows up in its check); mark anyway
    with open(marker, "w") as fh:
        fh.write("ok\n")
    return time.time() - t0


def write_replay(pid, case, clause, detail):
    d = os.path.join(lib.VERIF_DIR, "replays")
    os.makedirs(d, exist_ok=True)
    doc = {"property": pid, "clause": clause, "detail": detail, "case": case}
    s = json.dumps(doc, sort_keys=True, default=str)
    name = "%s-%s.json" % (pid, hashlib.sha1(s.encode()).hexdigest()[:12])
    p = os.path.join(d, name)
    with open(p, "w") as fh:
        json.dump(doc, fh, indent=1, sort_keys=True, default=str)
    return p


def replay(pid, path):
    lib.setup()
    from . import worker

    mod = worker.load_module(pid)
    with open(path) as fh:
        doc = json.load(fh)
    case = doc["case"] if "case" in doc and "property" in doc else doc
    out = worker.run_case(mod, case)
    print("replay %s: %s %s %s" % (path, out.status, out.clause, out.detail[:500]))
    if out.status == "violation":
        print("VIOLATION property=%s replay=%s" % (pid, path))
        return 1
    return 0


def main(argv=None):
    ap = argparse.ArgumentParser()
    ap.add_argument("pid")
    ap.add_argument("--tier", default=os.environ.get("VERIF_TIER", "quick"))
    ap.add_argument("--replay")
    ap.add_argument("--shards", type=int)
    args = ap.parse_args(argv)
    pid = args.pid.upper()
    tier = args.tier if args.tier in ("quick", "thorough") else "quick"
    seed = int(os.environ.get("VERIF_SEED", "1") or "1")
    env = _env()
    os.environ["NUMBA_CACHE_DIR"] = env["NUMBA_CACHE_DIR"]

    if args.replay:
        warm_cache(env)
        return replay(pid, args.replay)

    t0 = time.time()
    from . import worker

    # the module is imported in the parent only for its static description (BUDGET / RULE / LEVEL)
    lib.setup()
    mod = worker.load_module(pid)
    budget = mod.BUDGET[tier]
    nshards = args.shards or budget.get("shards", 8 if tier == "quick" else 16)
    warm_s = warm_cache(env)

    run_dir = os.path.join(lib.WORK, "run-%s-%s-%d-%d" % (pid, tier, seed, os.getpid()))
    shutil.rmtree(run_dir, ignore_errors=True)
    os.makedirs(run_dir)
    procs = []
    for s in range(nshards):
        sd = os.path.join(run_dir, "s%d" % s)
        os.makedirs(sd)
        out = os.path.join(sd, "result.json")
        log = open(os.path.join(sd, "log.txt"), "w")
        p = subprocess.Popen([PY, "-m", "pbt.worker", pid, tier, str(seed), str(s), str(nshards), out],
                             env=env, cwd=lib.VERIF_DIR, stdout=log, stderr=subprocess.STDOUT)
        procs.append((p, out, log, sd))
    results = []
    harness_errors = []
    for p, out, log, sd in procs:
        rc = p.wait()
        log.close()
        if os.path.exists(out):
            with open(out) as fh:
                r = json.load(fh)
            results.append(r)
            if r["status"] == "harness_error":
                harness_errors.append(r.get("error") or "")
        else:
            with open(os.path.join(sd, "log.txt")) as fh:
                harness_errors.append("worker rc=%s, no result; log tail: %s" % (rc, fh.read()[-3000:]))

    # merge
    evaluations = sum(r["evaluations"] for r in results)
    nontrivial = set()
    classes, discards, known_hits, engines, extra = {}, {}, {}, {}, {}
    known_samples = {}
    samples = []
    violation = None
    skipped = 0
    for r in results:
        nontrivial.update(r["nontrivial"])
        for k, v in r["classes"].items():
            classes[k] = classes.get(k, 0) + v
        for k, v in r["discards"].items():
            discards[k] = discards.get(k, 0) + v
        for k, v in r["known_hits"].items():
            known_hits[k] = known_hits.get(k, 0) + v
        for k, v in r.get("known_samples", {}).items():
            known_samples.setdefault(k, v)
        for k, v in r["engines"].items():
            engines[k] = engines.get(k, 0) + v
        for k, v in r.get("extra", {}).items():
            if isinstance(v, (int, float)) and not isinstance(v, bool):
                extra[k] = extra.get(k, 0) + v
            else:
                extra.setdefault(k, v)
        skipped += r.get("skipped_budget", 0)
        if len(samples) < 6:
            samples.extend(r["samples"][: max(1, 6 - len(samples))][:2])
        if violation is None and r.get("violation"):
            violation = r["violation"]
    wall = time.time() - t0

    from .common.outcome import known_entry

    lines = []
    for fid, cnt in sorted(known_hits.items()):
        ent = known_entry(fid) or {}
        if ent.get("status") == "known":
            lines.append("KNOWN-FINDING: property=%s %s [%s; hit %d times this run]" % (pid, ent.get("what", fid), fid, cnt))

    replay_path = None
    if violation is not None:
        replay_path = write_replay(pid, violation["case"], violation["clause"], violation["detail"])

    rule = mod.RULE
    coverage = {
        "evaluations": evaluations,
        "distinct_nontrivial": len(nontrivial),
        "rule": rule,
        "samples": samples[:6] if samples else ["(no sample recorded)"],
        "classes": classes,
        "discarded": discards,
        "engines": engines,
        "excluded_known": known_hits,
        "skipped_after_wall_budget": skipped,
        "shards": nshards,
        "jit_warm_s": round(warm_s, 2),
    }
    coverage.update(extra)
    if hasattr(mod, "coverage_extra"):
        coverage.update(mod.coverage_extra(tier, coverage))
    ev = {
        "property_id": pid,
        "tier": tier,
        "seed": seed,
        "level": "exploration",
        "coverage": coverage,
        "assumptions": getattr(mod, "ASSUMPTIONS", []),
        "wall_s": round(wall, 2),
        "violations": 0 if violation is None else 1,
    }
    if violation is not None:
        ev["coverage"]["violation"] = {"clause": violation["clause"], "detail": violation["detail"][:1000], "replay": replay_path}
    # evidence is only ever written for the real tree; mutant runs (VERIF_REPO) keep theirs under .work
    ev_dir = os.path.join(lib.VERIF_DIR, "evidence") if lib.REPO == "/repo" else os.path.join(lib.WORK, "evidence-mutant")
    if not harness_errors:
        os.makedirs(ev_dir, exist_ok=True)
        with open(os.path.join(ev_dir, "%s.json" % pid), "w") as fh:
            json.dump(ev, fh, indent=1, sort_keys=True, default=str)
            fh.write("\n")

    print("%s tier=%s seed=%d shards=%d evaluations=%d distinct_nontrivial=%d wall=%.1fs" % (
        pid, tier, seed, nshards, evaluations, len(nontrivial), wall))
    if classes:
        print("classes: " + ", ".join("%s=%d" % kv for kv in sorted(classes.items())))
    if discards:
        print("discarded: " + ", ".join("%s=%d" % kv for kv in sorted(discards.items())))
    for ln in lines:
        print(ln)

    keep = bool(os.environ.get("VERIF_KEEP_WORK"))
    if harness_errors:
        print("HARNESS-ERROR (no verdict):")
        print(harness_errors[0][-1800:])
        if not keep:
            shutil.rmtree(run_dir, ignore_errors=True)
        return 2
    if not keep:
        shutil.rmtree(run_dir, ignore_errors=True)
    if violation is not None:
        print("clause: %s" % violation["clause"])
        print("detail: %s" % violation["detail"][:1500])
        print("VIOLATION property=%s replay=%s" % (pid, replay_path))
        return 1
    # generator starvation is a harness problem, not a pass
    min_nt = budget.get("min_nontrivial", 2)
    if len(nontrivial) < min_nt:
        print("HARNESS-ERROR: generator starved (distinct non-trivial %d < %d)" % (len(nontrivial), min_nt))
        return 2
    if hasattr(mod, "starved"):
        msg = mod.starved(tier, classes)
        if msg:
            print("HARNESS-ERROR: generator starved: %s" % msg)
            return 2
    print("OK property=%s" % pid)
    return 0


if __name__ == "__main__":
    sys.exit(main())
