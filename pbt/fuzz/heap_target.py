"""atheris target for C05: bytes -> op sequence -> Interp with the dict-model oracle inside the target."""
import sys

import atheris

from pbt.common import lib

lib.setup()
with atheris.instrument_imports(include=["opfython.core.heap"]):
    import opfython.core.heap  # noqa

from pbt.props import c05  # noqa: E402


def test_one(data):
    case = c05.decode_bytes(data)
    c05.check_case(case)  # raises Violation / LibError -> libFuzzer crash artifact


def main():
    atheris.Setup([sys.argv[0]] + sys.argv[1:], test_one)
    atheris.Fuzz()


if __name__ == "__main__":
    main()
