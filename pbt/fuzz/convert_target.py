"""atheris target for C18: bytes -> binary OPF file -> opf2txt/csv/json -> load -> parse, oracle inside the target."""
import sys

import atheris

from pbt.common import lib

lib.setup()
with atheris.instrument_imports(include=["opfython.utils.converter", "opfython.stream.loader", "opfython.stream.parser"]):
    import opfython.stream.loader  # noqa
    import opfython.stream.parser  # noqa
    import opfython.utils.converter  # noqa

from pbt.props import c18  # noqa: E402


def test_one(data):
    case = c18.decode_bytes(data)
    if case is not None:
        c18.check_case(case)


def main():
    atheris.Setup([sys.argv[0]] + sys.argv[1:], test_one)
    atheris.Fuzz()


if __name__ == "__main__":
    main()
