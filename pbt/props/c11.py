"""C11 -- results are invariant to training order and to monotone rescaling of the metric."""
from hypothesis import strategies as st

from ..common import gen, models, oracles
from ..common.lib import libcall
from ..common.outcome import Outcome, require

ID = "C11"
FIVE = ["squared_euclidean", "euclidean", "average_euclidean", "log_euclidean", "log_squared_euclidean"]
RULE = (
    "(a) tie-free training set + query pool by construction (1..3 or 34/40 dimensions, optionally shifted by a common offset 2^20 / 2^24; integer coordinates / 8, all pairwise squared distances over the union distinct), >= 2 classes, a drawn permutation of the training order; "
    "the five mutually monotone identifiers euclidean, squared_euclidean, average_euclidean, log_euclidean, log_squared_euclidean. The construction makes the premise hold with a wide margin, so on the evaluated matrices each of the five identifiers must give distinct symmetric values in the same strict order (a failure is reported: the identifier is then not a strictly increasing transform). "
    "Oracle (metamorphic): permuted run: cost (exact), prototype status and assigned label of every sample and all "
    "predictions equal the base run; rescaled runs: prototype set, assigned labels, predictions equal across the five metrics and costs have the same rank order. "
    "(b) pre-computed tie-free or NEARLY tied matrices (distinct weights within a relative 1e-7..1e-5): the permuted run presents the same matrix with I_train = permutation; same per-sample comparison. "
    "non-trivial: the permutation moves the sample at index 0 and a prototype, and some query's arg-min sample is not a prototype; distinct by case hash"
)
ASSUMPTIONS = ["premise (tie-free, same order type under the five transforms) is checked on the evaluated float matrices; cases failing it are discarded and counted"]
BUDGET = {
    "quick": {"examples": 3200, "shards": 16, "min_nontrivial": 150},
    "thorough": {"examples": 80000, "shards": 16, "min_nontrivial": 2500, "max_wall": 3000},
}


@st.composite
def _case(draw, nmax):
    nt = draw(st.integers(3, nmax))
    nq = draw(st.integers(1, 5))
    dim = draw(st.sampled_from([1, 2, 3, 1, 2, 3, 34, 40]))
    X = draw(gen.tiefree_points(nt + nq, dim))
    if draw(st.integers(0, 3)) == 0:
        # a large common offset (exactly representable: coordinates are multiples of 1/8): differences, hence all five metrics'
        # exact values, are unchanged, but any formula that does not work on differences loses digits
        off = draw(st.sampled_from([1048576.0, 16777216.0]))
        X = [[v + off for v in p] for p in X]
    Y = draw(gen.labels(nt, 2, 3))
    perm = list(draw(st.permutations(list(range(nt)))))
    # how the permuted run is obtained: a fresh model, or the SAME object re-fitted after helper calls / a save-load round trip
    hist = draw(st.sampled_from(["fresh", "fresh", "refit_same_object", "refit_after_get_distances", "via_load"]))
    return {"X": X, "nt": nt, "nq": nq, "Y": Y, "perm": perm, "history": hist}


@st.composite
def _pre_case(draw, nmax):
    """pre-computed tie-free (also nearly tied) matrix; the permuted run presents the SAME matrix with I_train = permutation"""
    nt = draw(st.integers(3, nmax))
    nq = draw(st.integers(1, 4))
    W, wm = draw(gen.weight_matrix(nt + nq, allow_zero=False, mode=draw(st.sampled_from(["tiefree", "neartie", "neartie"]))))
    Y = draw(gen.labels(nt, 2, 3))
    if draw(st.integers(0, 2)) == 0:
        # one exactly-zero weight (two coincident samples): still tie-free, but "null" arcs must be treated like any other arc
        a = draw(st.integers(0, nt - 1))
        b = draw(st.integers(0, nt - 2))
        b = b if b < a else b + 1
        W[a][b] = W[b][a] = 0.0
        wm += "_onezero"
    perm = list(draw(st.permutations(list(range(nt)))))
    return {"mode": "pre", "W": W, "wmode": wm, "nt": nt, "nq": nq, "Y": Y, "perm": perm}


def strategy(tier):
    n = 9 if tier == "quick" else 18
    return st.one_of(_case(n), _case(n), _pre_case(n))


def check_pre(case):
    from ..common import supcase

    nt, nq, W, Y, perm = case["nt"], case["nq"], case["W"], case["Y"], case["perm"]
    m = nt + nq
    vals = [W[i][j] for i in range(m) for j in range(i + 1, m)]
    if len(set(vals)) != len(vals):
        return Outcome.discard("premise:ties")
    base = supcase.run({"model": "sup", "mode": "pre", "nt": nt, "nu": 0, "nq": nq, "Y": Y, "W": W}, predict=True)
    pi = perm + list(range(nt, m))
    Wp = [[W[pi[a]][pi[b]] for b in range(m)] for a in range(m)]
    permuted = supcase.run({"model": "sup", "mode": "pre", "nt": nt, "nu": 0, "nq": nq, "Y": [Y[i] for i in perm], "W": Wp, "rows": pi}, predict=True)
    if isinstance(base, str) or isinstance(permuted, str):
        return Outcome.discard("premise:" + str(base if isinstance(base, str) else permuted))
    s, sp = base.state, permuted.state
    for j in range(nt):
        i = perm[j]
        for f in ("cost", "status", "predicted_label"):
            require(sp[f][j] == s[f][i], "permutation_invariant:" + f, lambda: "pre-computed: sample %d (position %d after permuting): %s %r vs %r in the base run; perm=%r W=%r Y=%r" % (i, j, f, sp[f][j], s[f][i], perm, W, Y))
    require(permuted.preds == base.preds, "permutation_invariant:predictions", lambda: "pre-computed: predictions %r (permuted) vs %r (base); perm=%r W=%r Y=%r" % (permuted.preds, base.preds, perm, W, Y))
    protos = {i for i in range(nt) if s["status"][i] == 1}
    moved0 = perm[0] != 0
    moved_proto = any(perm[j] != j and perm[j] in protos for j in range(nt))
    return Outcome.ok(nontrivial=moved0 and moved_proto, classes=["pre_" + case["wmode"]] + (["perm_moves_index0"] if moved0 else []))


def _fit(name, X, Y, Q, model=None, keep=None):
    np = models.np()
    m = model if model is not None else libcall(models.classes()["sup"], distance=name)
    libcall(m.fit, np.array(X, dtype=float), np.array(Y, dtype=int))
    s = models.node_state(m)
    p = [int(v) for v in libcall(m.predict, np.array(Q, dtype=float))]
    if keep is not None:
        keep[name] = m
    return s, p


def _with_history(name, hist, kept):
    """the model object on which the permuted run is executed"""
    import os
    import tempfile

    if hist == "fresh" or name not in kept:
        return None
    m = kept[name]
    if hist == "refit_after_get_distances":
        libcall(m.get_distances)
        libcall(m.get_distances, True)
    elif hist == "via_load":
        with tempfile.TemporaryDirectory(prefix="c11-") as tmp:
            f = os.path.join(tmp, "m.pkl")
            libcall(m.save, f)
            m = libcall(models.classes()["sup"])  # default constructor arguments
            libcall(m.load, f)
    return m


def _rank(vals):
    order = sorted(range(len(vals)), key=lambda i: vals[i])
    r = [0] * len(vals)
    k = 0
    for pos, i in enumerate(order):
        if pos > 0 and vals[i] != vals[order[pos - 1]]:
            k = pos
        r[i] = k
    return r


def check_case(case):
    if case.get("mode") == "pre":
        return check_pre(case)
    nt, nq = case["nt"], case["nq"]
    X, Y, perm = case["X"], case["Y"], case["perm"]
    tr, qs = X[:nt], X[nt:]
    # premise on the evaluated matrices
    mats = {n: models.eval_matrix(n, X) for n in FIVE}
    m = nt + nq
    pairs = [(i, j) for i in range(m) for j in range(i + 1, m)]
    base_rank = None
    for n in FIVE:
        vals = [mats[n][i][j] for i, j in pairs]
        # the construction guarantees distinct, exactly representable squared distances with gaps far above rounding, so each of
        # the five identifiers must give distinct symmetric values in the same strict order: anything else means the identifier is
        # not a strictly increasing transform of the Euclidean distance (the premise of the statement, broken by the library)
        require(all(mats[n][i][j] == mats[n][j][i] for i, j in pairs), "rescaling:symmetric", lambda: "%s is not symmetric on %r" % (n, X))
        if n == "squared_euclidean" and len(set(vals)) != len(vals):
            return Outcome.discard("generator:not_tie_free")
        require(len(set(vals)) == len(vals), "rescaling:strictly_increasing_transform", lambda: "%s produces tied values on data whose squared Euclidean distances are all distinct: X=%r" % (n, X))
        rk = _rank(vals)
        if base_rank is None:
            base_rank = rk
        else:
            require(rk == base_rank, "rescaling:strictly_increasing_transform", lambda: "%s orders the pairs differently from %s on X=%r" % (n, FIVE[0], X))
    kept = {}
    runs = {n: _fit(n, tr, Y, qs, keep=kept) for n in FIVE}
    hist = case.get("history", "fresh")
    # --- permutation invariance (each of the five metrics)
    trp = [tr[i] for i in perm]
    Yp = [Y[i] for i in perm]
    for n in FIVE:
        s, p = runs[n]
        sp, pp = _fit(n, trp, Yp, qs, model=_with_history(n, hist, kept))
        for j in range(nt):
            i = perm[j]
            for f in ("cost", "status", "predicted_label"):
                require(sp[f][j] == s[f][i], "permutation_invariant:" + f, lambda: "%s: sample %d (position %d after permuting): %s %r vs %r in the base run; perm=%r X=%r Y=%r" % (n, i, j, f, sp[f][j], s[f][i], perm, tr, Y))
        require(pp == p, "permutation_invariant:predictions", lambda: "%s: predictions %r (permuted) vs %r (base); perm=%r" % (n, pp, p, perm))
    # --- monotone rescaling
    s0, p0 = runs[FIVE[0]]
    for n in FIVE[1:]:
        s, p = runs[n]
        require(s["status"] == s0["status"], "rescaling_invariant:prototypes", lambda: "%s prototypes %r vs euclidean %r (X=%r Y=%r)" % (n, s["status"], s0["status"], tr, Y))
        require(s["predicted_label"] == s0["predicted_label"], "rescaling_invariant:assigned_labels", lambda: "%s labels %r vs euclidean %r" % (n, s["predicted_label"], s0["predicted_label"]))
        require(p == p0, "rescaling_invariant:predictions", lambda: "%s predictions %r vs euclidean %r (X=%r Y=%r Q=%r)" % (n, p, p0, tr, Y, qs))
        require(_rank(s["cost"]) == _rank(s0["cost"]), "rescaling_invariant:cost_order", lambda: "%s costs %r vs euclidean %r" % (n, s["cost"], s0["cost"]))
    protos = {i for i in range(nt) if s0["status"][i] == 1}
    moved0 = perm[0] != 0
    moved_proto = any(perm[j] != j and (perm[j] in protos) for j in range(nt))
    D = mats["euclidean"]
    nonproto_argmin = False
    for q in range(nq):
        _, mval, vals = oracles.argmin_labels(s0["cost"], s0["predicted_label"], [D[t][nt + q] for t in range(nt)])
        if any(v == mval and t not in protos for t, v in enumerate(vals)):
            nonproto_argmin = True
    cl = ["history_" + hist]
    if moved0:
        cl.append("perm_moves_index0")
    if nonproto_argmin:
        cl.append("argmin_is_non_prototype")
    return Outcome.ok(nontrivial=moved0 and moved_proto and nonproto_argmin, classes=cl)
