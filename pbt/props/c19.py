"""C19 -- a saved and re-loaded model behaves identically to the original."""
import os
import tempfile

from hypothesis import strategies as st

from ..common import gen, lib, models
from ..common import metrics as M
from ..common.lib import libcall
from ..common.outcome import Outcome, require

ID = "C19"
RULE = (
    "model kind (4) x drawn metric (all 47, training data in its domain) x with / without pre-computed distances (supervised, semi-supervised, unsupervised) x small training data and a pool of probe queries. "
    "Oracle: snapshot S0 of the original (all node fields, conquest order, sub-graph scalars, distance name, max_k/min_k, pre_distances); save(f); snapshot S1 == S0 and predictions before == after the save; "
    "(pre-computed: training rows in a rotated, non-identity order); a FRESH model of the same kind built with default constructor arguments loads f: its snapshot == S0, its distance function evaluates like the original's, and predict(Q) equals the original's on every probe batch. "
    "a second, different model saved to the same path and loaded into another fresh model must give the second model's state. "
    "non-trivial: the saved metric differs from the default metric of the fresh model and the model outputs >= 2 distinct labels/clusters; distinct by case hash"
)
ASSUMPTIONS = ["files are written to and read from a private temporary directory"]
BUDGET = {
    "quick": {"examples": 4800, "shards": 16, "min_nontrivial": 600},
    "thorough": {"examples": 32000, "shards": 16, "min_nontrivial": 1500, "max_wall": 3000},
}


@st.composite
def _case(draw, nmax):
    kind = draw(st.sampled_from(["sup", "semi", "knn", "unsup"]))
    name = M.NAMES[draw(st.integers(0, 10**6)) % len(M.NAMES)]
    pk = draw(st.sampled_from(gen.metric_point_kind(name)))
    dim = draw(st.integers(1, 3))
    nt = draw(st.integers(3, nmax))
    Y = draw(gen.labels(nt, 2, 3))
    K = max(Y) + 1
    nv = draw(st.integers(K, K + 2))
    nq = draw(st.integers(1, 5))
    pts = draw(gen.points(nt + nv + nq, dim, pk))
    pre = draw(st.booleans()) and kind != "knn"
    case = {"kind": kind, "metric": name, "pkind": pk, "nt": nt, "nv": nv, "nq": nq, "X": pts, "Y": Y, "Yv": draw(gen.labels(nv, K, K)), "pre": pre,
            "max_k": draw(st.integers(1, min(3, nt - 1)))}
    case["min_k"] = draw(st.integers(1, case["max_k"]))
    case["scale"] = draw(st.sampled_from([1.0, 1.0, 1.0, 1e-5, 3e-5, 1e-6]))
    case["matrix_off"] = draw(st.integers(0, 4)) == 0  # tiny-scale data: arcs around the 1e-5 density threshold
    if pk == "lattice":
        case["train_dtype"] = draw(st.sampled_from(["float64", "int64", "uint8", "float32"]))
    return case


def strategy(tier):
    return _case(8 if tier == "quick" else 14)


def snapshot(m):
    s = models.node_state(m)
    s["distance"] = m.distance
    s["pre_computed_distance"] = m.pre_computed_distance
    s["pre_distances"] = None if m.pre_distances is None else models.np().asarray(m.pre_distances).tolist()
    for a in ("max_k", "min_k"):
        if hasattr(m, a):
            s[a] = getattr(m, a)
    s["features"] = [(str(models.np().asarray(nd.features).dtype), models.np().asarray(nd.features).tolist()) for nd in m.subgraph.nodes]
    return s


def check_case(case):
    lib.setup()
    np = models.np()
    import math

    kind, name = case["kind"], case["metric"]
    nt, nv, nq = case["nt"], case["nv"], case["nq"]
    sc = case.get("scale", 1.0) if case.get("train_dtype", "float64") == "float64" and case["pkind"] != "prob" else 1.0
    pts = [[float(v) * sc for v in p] for p in case["X"]]
    ref = models.eval_matrix(name, pts)
    if not all(math.isfinite(v) for row in ref for v in row):
        return Outcome.discard("non_finite_metric_value")
    if any(0 < abs(v) < 1e-300 for row in ref for v in row):
        return Outcome.discard("subnormal_metric_value")  # e.g. gaussian of far points: 1/d overflows, outside any realistic domain
    cls = models.classes()[kind]
    X = np.array(pts, dtype=float)
    Xt, Xv, Xq = X[:nt], X[nt:nt + nv], X[nt + nv:]
    if case.get("train_dtype", "float64") != "float64":
        # integer / narrow-float training matrix (lattice values are small non-negative integers); probes stay float64 and get a fractional part
        Xt = Xt.astype(np.dtype(case["train_dtype"]))
        Xq = Xq + 0.25
    Y, Yv = np.array(case["Y"], dtype=int), np.array(case["Yv"], dtype=int)
    kw = {"distance": name}
    if kind == "knn":
        kw["max_k"] = case["max_k"]
    if kind == "unsup":
        kw.update(min_k=case["min_k"], max_k=case["max_k"])
    m = libcall(cls, **kw)
    It = Iq = None
    if case.get("matrix_off") and not case["pre"] and kind != "knn":
        # a distance matrix is attached through the public attribute but its use is switched off: both facts must survive save/load
        m.pre_distances = np.array(ref, dtype=float)
        m.pre_computed_distance = False
    if case["pre"]:
        # semi: unlabeled rows must follow the labeled rows in the matrix -> order rows as train, validation(=unlabeled), queries;
        # for the other kinds the training rows are presented in a rotated (non-identity) order
        models.set_pre(m, ref)
        It = np.arange(nt)
        if kind != "semi":
            It = np.roll(It, 1)
            Xt, Y = Xt[It], Y[It]
        Iq = np.arange(nt + nv, nt + nv + nq)
    if kind == "sup":
        libcall(m.fit, Xt.copy(), Y.copy(), It)
    elif kind == "semi":
        libcall(m.fit, Xt.copy(), Y.copy(), Xv.copy(), It)
    elif kind == "knn":
        libcall(m.fit, Xt.copy(), Y.copy(), Xv.copy(), Yv.copy())
    else:
        libcall(m.fit, Xt.copy(), Y.copy(), It)

    def pred(model, idxs):
        out = libcall(model.predict, Xq[idxs].copy(), None if Iq is None else Iq[idxs].copy())
        return [list(map(int, v)) for v in out] if isinstance(out, tuple) else [int(v) for v in out]

    batches = [list(range(nq)), [0], list(range(nq))[::-1]]
    p0 = [pred(m, b) for b in batches]
    S0 = snapshot(m)
    with tempfile.TemporaryDirectory(prefix="c19-") as tmp:
        f = os.path.join(tmp, "model.pkl")
        libcall(m.save, f)
        S1 = snapshot(m)
        for k in S0:
            require(repr(S0[k]) == repr(S1[k]), "save_does_not_alter_original", lambda: "field %s changed by save(): %r -> %r" % (k, S0[k], S1[k]))
        p1 = [pred(m, b) for b in batches]
        fresh = libcall(cls)  # default constructor arguments
        libcall(fresh.load, f)
        # a second model saved to the SAME path and loaded again must give the second model (no stale cache by file name)
        m2 = libcall(cls, **kw)
        if case["pre"]:
            models.set_pre(m2, ref)
        Y2 = np.array([(v + 1) % (max(case["Y"]) + 1) for v in (Y.tolist())], dtype=int)
        if kind == "sup":
            libcall(m2.fit, Xt[::-1].copy(), Y2[::-1].copy(), None if It is None else It[::-1].copy())
        elif kind == "semi":
            libcall(m2.fit, Xt.copy(), Y2.copy(), Xv.copy(), It)
        elif kind == "knn":
            libcall(m2.fit, Xt[::-1].copy(), Y[::-1].copy(), Xv.copy(), Yv.copy())
        else:
            libcall(m2.fit, Xt[::-1].copy(), Y2[::-1].copy(), None if It is None else It[::-1].copy())
        T0 = snapshot(m2)
        libcall(m2.save, f)
        fresh2 = libcall(cls)
        libcall(fresh2.load, f)
        T2 = snapshot(fresh2)
        for k in T0:
            require(repr(T0[k]) == repr(T2[k]), "loaded_state_equals_original:second_save_to_same_path", lambda: "%s/%s: field %s: second model %r, loaded %r" % (kind, name, k, T0[k], T2[k]))
    S0b = snapshot(m)
    S2 = snapshot(fresh)
    # the loaded object keeps working like the original: re-fitting it on the same data reproduces the original fit
    if not case.get("matrix_off"):
        if kind == "sup":
            libcall(fresh.fit, Xt.copy(), Y.copy(), It)
        elif kind == "semi":
            libcall(fresh.fit, Xt.copy(), Y.copy(), Xv.copy(), It)
        elif kind == "knn":
            libcall(fresh.fit, Xt.copy(), Y.copy(), Xv.copy(), Yv.copy())
        else:
            libcall(fresh.fit, Xt.copy(), Y.copy(), It)
        S3 = snapshot(fresh)
        for k in ("cost", "pred", "status", "predicted_label", "root", "cluster_label", "density", "distance", "pre_computed_distance"):
            require(repr(S0[k]) == repr(S3[k]), "loaded_model_refits_like_original", lambda: "%s/%s: field %s after re-fitting the loaded model %r, original fit %r" % (kind, name, k, S3[k], S0[k]))
    for k in S0b:
        require(repr(S0b[k]) == repr(S2[k]), "loaded_state_equals_original", lambda: "%s/%s: field %s: original %r, loaded %r" % (kind, name, k, S0b[k], S2[k]))
    require(p1 == p0, "save_does_not_alter_original", "predictions changed by save(): %r -> %r" % (p0, p1))
    # the metric itself must come from the file
    a, b = np.array(pts[0]), np.array(pts[1])
    v1 = float(libcall(m.distance_fn, a.copy(), b.copy()))
    v2 = float(libcall(fresh.distance_fn, a.copy(), b.copy()))
    require(v1 == v2 or (v1 != v1 and v2 != v2), "loaded_metric_equals_original", lambda: "%s: distance_fn of the loaded model gives %r, original %r" % (name, v2, v1))
    p2 = [pred(fresh, b_) for b_ in batches]
    require(p2 == p0, "loaded_predictions_equal_original", lambda: "%s/%s pre=%r: original %r, loaded %r" % (kind, name, case["pre"], p0, p2))
    flat = [repr(o) for b_ in p0 for o in (zip(*b_) if kind == "unsup" else b_)]
    nontriv = name != "log_squared_euclidean" and len(set(flat)) >= 2
    return Outcome.ok(nontrivial=nontriv, classes=["kind_" + kind, "pre" if case["pre"] else "feat", "m:" + name])
