"""C09 -- a prediction depends only on the fitted model and the sample itself."""
from hypothesis import strategies as st

from ..common import knncase, models, supcase
from ..common.lib import libcall
from ..common.outcome import Outcome, require

ID = "C09"
RULE = (
    "one fitted model of any of the four kinds (generators of C01/C15/C13: pre-computed tied matrices or feature data with a drawn metric; queries include exact copies of training samples) "
    "followed by a HISTORY of 1..6 predict calls on batches drawn with repetition from the query pool (whole pool, single rows, permutations, duplicated rows; batch lengths up to n_train+3, occasionally 64..140 rows, so "
    "that the same sample occurs at batch positions both < n_train and >= n_train). Oracle: table sample (feature bytes / matrix row id) -> first observed (label[, cluster]); every later observation "
    "of the same sample must equal it exactly; node costs / labels / predecessors / features of the model are unchanged by the whole history. "
    "non-trivial: some sample was predicted at >= 2 different batch positions, one of them < n_train, and the model outputs >= 2 distinct labels/clusters; distinct by case hash"
)
ASSUMPTIONS = ["histories are generated as data (lists of batches) rather than by a rule-based machine: predict has no state-dependent precondition, so a list strategy reaches the same histories and shrinks as one value"]
BUDGET = {
    "quick": {"examples": 9600, "shards": 16, "min_nontrivial": 400},
    "thorough": {"examples": 192000, "shards": 16, "min_nontrivial": 6000, "max_wall": 3000},
}


@st.composite
def _case(draw, nmax):
    fam = draw(st.sampled_from(["sup", "knn"]))
    if fam == "sup":
        base = draw(supcase.sup_case(nmax=nmax, kinds=("sup", "semi"), nq=(2, 6), nu=(0, 3)))
    else:
        base = draw(knncase.knn_case(nmax=nmax, nq=(2, 6), kmax_force=True))
    nq, nt = base["nq"], base["nt"]
    batches = []
    for _ in range(draw(st.integers(1, 6))):
        kind = draw(st.sampled_from(["whole", "single", "perm", "random", "random", "long", "verylong"]))
        if kind == "whole":
            b = list(range(nq))
        elif kind == "single":
            b = [draw(st.integers(0, nq - 1))]
        elif kind == "perm":
            b = list(draw(st.permutations(list(range(nq)))))
        elif kind == "random":
            b = draw(st.lists(st.integers(0, nq - 1), min_size=1, max_size=nq + 2))
        elif kind == "verylong":
            # a large batch (vectorised "fast paths" typically switch on above some batch size)
            reps = draw(st.integers(64, 140))
            seq = draw(st.lists(st.integers(0, nq - 1), min_size=4, max_size=12))
            b = [seq[i % len(seq)] for i in range(reps)]
        else:
            b = draw(st.lists(st.integers(0, nq - 1), min_size=nt + 1, max_size=nt + 3))
        batches.append(b)
    return {"fam": fam, "base": base, "batches": batches}


def strategy(tier):
    return _case(9 if tier == "quick" else 20)


def check_case(case):
    np = models.np()
    base = case["base"]
    if case["fam"] == "sup":
        r = supcase.run(base, predict=False)
    else:
        r = knncase.run(base, predict=False)
    if isinstance(r, str):
        return Outcome.discard(r)
    model = r.model
    nt = base["nt"]
    unsup = base["model"] == "unsup"
    fields = ("cost", "pred", "status", "label", "predicted_label", "root", "cluster_label", "density", "idx_nodes")
    def full_state():
        st_ = models.node_state(model)
        st_["features"] = [np.asarray(nd.features).tobytes() for nd in model.subgraph.nodes]
        return st_

    fields = fields + ("features",)
    before = full_state()
    table = {}
    positions = {}
    outputs = set()
    for bi, b in enumerate(case["batches"]):
        Xb = r.Xq[b]
        Ib = None if r.I_q is None else r.I_q[b]
        out = libcall(model.predict, Xb.copy(), None if Ib is None else Ib.copy())
        if unsup:
            res = list(zip([int(v) for v in out[0]], [int(v) for v in out[1]]))
        else:
            res = [int(v) for v in out]
        require(len(res) == len(b), "predict:length", "batch of %d gave %d outputs" % (len(b), len(res)))
        for pos, (qi, o) in enumerate(zip(b, res)):
            key = ("row", int(r.I_q[qi])) if r.I_q is not None else ("feat", r.Xq[qi].tobytes())
            outputs.add(o)
            positions.setdefault(key, set()).add(pos)
            if key in table:
                first, where = table[key]
                require(o == first, "prediction_depends_only_on_sample", lambda: "sample %r (pool index %d): %r at call %d position %d, but %r at %s; batches=%r n_train=%d" % (
                    key[1] if key[0] == "row" else r.Xq[qi].tolist(), qi, o, bi, pos, first, where, case["batches"], nt))
            else:
                table[key] = (o, "call %d position %d" % (bi, pos))
    after = full_state()
    for f in fields:
        require(before[f] == after[f], "predict_leaves_model_unchanged", lambda: "node field %s changed by predict: %r -> %r" % (f, before[f], after[f]))
    nontriv = len(outputs) >= 2 and any(len(ps) >= 2 and min(ps) < nt for ps in positions.values())
    cl = ["model_" + base["model"], "mode_" + base["mode"], "calls=%d" % len(case["batches"])]
    if any(len(ps) >= 2 and min(ps) < nt <= max(ps) for ps in positions.values()):
        cl.append("same_sample_below_and_above_n_train")
    return Outcome.ok(nontrivial=nontriv, classes=cl)
