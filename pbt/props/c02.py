"""C02 -- prototypes are exactly the class-boundary endpoints of a minimum spanning tree."""
from hypothesis import strategies as st

from ..common import oracles, supcase
from ..common.outcome import Outcome, require

ID = "C02"
RULE = (
    "SupervisedOPF / SemiSupervisedOPF (prototypes from the labeled part) on tied / tie-free / float pre-computed matrices and on feature data with a drawn metric, "
    "plus the bounded-exhaustive matrices of C01. Oracle: n_labeled <= 7: the flagged set must be one of the prototype sets induced by ALL minimum spanning trees "
    "(every labelled tree enumerated by Pruefer sequence); tie-free: equals the unique Kruskal set; n > 7 with ties: sound necessary conditions via perturbed-weight Kruskal "
    "(an MST exists without a cross-class arc at a non-prototype; every prototype is a cross-class MST endpoint of some MST). Every class has a prototype; prototypes keep cost 0 and own label. "
    "non-trivial: the reference MST has >= 1 same-class and >= 1 cross-class arc; distinct by case hash"
)
ASSUMPTIONS = ["for n > 7 with tied weights only necessary conditions are decided (DESIGN.md section 8 (ii))"]
BUDGET = {
    "quick": {"examples": 7200, "shards": 16, "min_nontrivial": 500},
    "thorough": {"examples": 192000, "shards": 16, "min_nontrivial": 8000, "max_wall": 3000},
}


def strategy(tier):
    nmax = 10 if tier == "quick" else 24
    small = supcase.sup_case(nmax=6, kinds=("sup", "sup", "semi"), nu=(0, 3))
    seven = supcase.sup_case(nmax=7, nmin=7, kinds=("sup",))
    big = supcase.sup_case(nmax=nmax, nmin=8, kinds=("sup", "sup", "semi"), nu=(0, 4))
    return st.one_of(small, small, small, small, small, big, big, big, big, seven)


def enumerate_cases(tier):
    yield from supcase.enumerate_pre_cases(3, (1, 2, 3))
    yield from supcase.enumerate_pre_cases(4, (1, 2, 3))
    if tier == "thorough":
        yield from supcase.enumerate_pre_cases(5, (1, 2), kmax=3)
        yield from supcase.enumerate_pre_cases(4, (0, 1, 2, 3), kmax=2)


def check_prototypes(r, case):
    s = r.state
    nt = case["nt"]
    Y = case["Y"]
    W = [row[:nt] for row in r.W[:nt]]  # the labeled sub-graph
    S = {i for i in range(s["n_nodes"]) if s["status"][i] == 1}
    require(all(i < nt for i in S), "prototypes:labeled_only", "unlabeled node flagged prototype: %r" % sorted(S))
    for c in set(Y):
        require(any(Y[i] == c for i in S), "prototypes:every_class", lambda: "class %r has no prototype (S=%r, Y=%r, W=%r)" % (c, sorted(S), Y, W))
    for p in S:
        require(s["cost"][p] == 0 and s["predicted_label"][p] == Y[p], "prototypes:cost0_own_label", "prototype %d: cost %r label %r (true %r)" % (p, s["cost"][p], s["predicted_label"][p], Y[p]))
    cl = []
    tf = oracles.tie_free(W)
    ref_tree = oracles.kruskal(W)
    if tf:
        exp = oracles.prototypes_of_tree(ref_tree, Y)
        require(S == exp, "prototypes:unique_mst", lambda: "flagged %r, the unique MST gives %r (W=%r Y=%r)" % (sorted(S), sorted(exp), W, Y))
        cl.append("oracle_unique")
        nsets = 1
    elif nt <= 7:
        sets, best = oracles.mst_prototype_sets(W, Y)
        require(frozenset(S) in sets, "prototypes:some_mst", lambda: "flagged %r is not induced by any of the minimum spanning trees; admissible: %r (W=%r Y=%r)" % (sorted(S), sorted(map(sorted, sets))[:8], W, Y))
        cl.append("oracle_all_msts")
        nsets = len(sets)
        if nsets >= 2:
            cl.append("several_admissible_sets")
    else:
        errs = oracles.mst_necessary_conditions(W, Y, S)
        if errs:
            require(False, errs[0][0], errs[0][1] + " (S=%r W=%r Y=%r)" % (sorted(S), W, Y))
        cl.append("oracle_necessary")
        nsets = 0
    same = sum(1 for a, b in ref_tree if Y[a] == Y[b])
    cross = len(ref_tree) - same
    return (same >= 1 and cross >= 1), cl


def check_case(case):
    r = supcase.run(case, predict=False)
    if isinstance(r, str):
        return Outcome.discard(r)
    nt, cl = check_prototypes(r, case)
    cl += ["model_" + case["model"], "mode_" + case["mode"]]
    if case["mode"] == "pre":
        cl.append("w_" + case["wmode"])
    return Outcome.ok(nontrivial=nt, classes=cl)
