"""C17 -- learning conserves samples and keeps the best model; pruning only discards."""
from hypothesis import strategies as st

from ..common import gen, lib, models, oracles
from ..common.lib import libcall
from ..common.outcome import Outcome, is_known, require
from .c16 import ref_accuracy

ID = "C17"
RULE = (
    "training / validation sets (4..14 / 3..10 samples, 1..3 dims, >= 2 classes, validation covering all classes, generic dyadic or lattice coordinates with unique-making id column or duplicates), "
    "n_iterations 1..6 and an integer passed to np.random.seed immediately before the call (the random swap choices); three sub-checks. "
    "learn: a recording sub-class of SupervisedOPF (defined in the harness) snapshots the training arrays at every fit and the predictions / validation labels at every predict; afterwards the multiset "
    "of (row bytes, label) over train+validation and all shapes must be unchanged, every iteration's accuracy is recomputed with the C20 reference, and the object's final forest must be the forest of an "
    "iteration with maximal accuracy (node features/labels == that iteration's training snapshot, all node fields and predictions == a fresh fit on it); 1/6 of the learn cases attach a by-position distance matrix, 1/6 let the same object learn once before. "
    "relevance: after fit + one predict, with A(x) the exhaustive arg-min set and R the flagged nodes: R is ancestor-closed, and there is an assignment x -> c(x) in A(x) whose ancestor closure is exactly R "
    "(bipartite matching of R's leaves to queries; ties make the conqueror ambiguous). "
    "prune: at every iteration the rows passed to fit are exactly those flagged relevant in the previous model, the final node multiset is a sub-multiset of the original training multiset with labels intact, "
    "the caller's arrays are untouched. Iterations whose retained set is single-class fall under known finding K1 and are excluded and counted. "
    "non-trivial: learn with >= 2 iterations, >= 1 swap and not all accuracies equal / relevance with >= 1 irrelevant node / prune that discarded >= 1 sample; distinct by case hash"
)
ASSUMPTIONS = ["with tied arg-mins any consistent conqueror choice is accepted (the statement does not fix a tie rule)"]
BUDGET = {
    "quick": {"examples": 7200, "shards": 16, "min_nontrivial": 400},
    "thorough": {"examples": 128000, "shards": 16, "min_nontrivial": 5000, "max_wall": 3000},
}


@st.composite
def _case(draw, t=None):
    t = t or draw(st.sampled_from(["learn", "learn", "relevance", "prune"]))
    nt = draw(st.integers(4, 14))
    dim = draw(st.integers(1, 3))
    Y = draw(gen.labels(nt, 2, 3))
    K = max(Y) + 1
    nv = draw(st.integers(max(3, K), 10))
    Yv = draw(gen.labels(nv, K, K))
    kind = draw(st.sampled_from(["generic", "lattice", "lattice"]))
    pts = draw(gen.points(nt + nv, dim, kind))
    if draw(st.integers(0, 3)) > 0:  # make rows unique with an id coordinate (keeps multiset bookkeeping sharp)
        pts = [p + [i / 4.0] for i, p in enumerate(pts)]
    case = {"t": t, "nt": nt, "nv": nv, "X": pts, "Y": Y, "Yv": Yv, "n_iter": draw(st.integers(1, 6)), "seed": draw(st.integers(0, 2**32 - 1)),
            "metric": draw(st.sampled_from(["log_squared_euclidean", "euclidean", "manhattan", "squared_euclidean"]))}
    if t == "learn":
        hist = draw(st.integers(0, 5))
        if hist == 0:
            case["pre"] = True  # distances by position from an attached matrix (learn has no index arguments)
        elif hist == 1:
            case["learn_before"] = True  # the same object has already learned once (on copies of the data, other random swaps)
    return case


def strategy(tier):
    return _case()


def _multiset(*pairs):
    out = []
    for X, Y in pairs:
        for r, y in zip(X, Y):
            out.append((tuple(float(v) for v in r), int(y)))
    return sorted(out)


def _recording_class(yv_ref=None):
    lib.setup()
    from opfython.models.supervised import SupervisedOPF

    log = {"fits": [], "predicts": []}

    class Recording(SupervisedOPF):
        def fit(self, X_train, Y_train, I_train=None):
            prev = None
            if getattr(self, "subgraph", None) is not None and log["fits"]:
                prev = [([float(v) for v in nd.features], int(nd.label), int(nd.relevant)) for nd in self.subgraph.nodes]
            np = models.np()
            log["fits"].append({"X": np.array(X_train, dtype=float).copy().tolist(), "Y": [int(v) for v in Y_train], "prev": prev})
            return super().fit(X_train, Y_train, I_train)

        def predict(self, X_val, I_val=None):
            out = super().predict(X_val, I_val)
            log["predicts"].append({"preds": [int(v) for v in out], "n": len(out), "yv": None if yv_ref is None else [int(v) for v in yv_ref]})
            return out

    return Recording, log


def check_learn(case):
    np = models.np()
    nt, nv = case["nt"], case["nv"]
    X = np.array(case["X"], dtype=float)
    Xt, Xv = X[:nt].copy(), X[nt:].copy()
    Yt, Yv = np.array(case["Y"], dtype=int), np.array(case["Yv"], dtype=int)
    before = _multiset((Xt, Yt), (Xv, Yv))
    # the recording sub-class snapshots, at every predict, the predictions and the caller's validation labels as they are then
    Recording, log = _recording_class(Yv)
    m = libcall(Recording, distance=case["metric"])
    P = None
    if case.get("pre"):
        ns = nt + nv
        P = [[0.0 if a == b else float((a * 7 + b * 7 + a * b) % 5 + 1) for b in range(ns)] for a in range(ns)]
        models.set_pre(m, P)
    if case.get("learn_before"):
        np.random.seed((case["seed"] + 1) % 2**32)
        libcall(m.learn, Xt.copy(), Yt.copy(), Xv.copy(), Yv.copy(), case["n_iter"])
        del log["fits"][:]
        del log["predicts"][:]
    np.random.seed(case["seed"])
    libcall(m.learn, Xt, Yt, Xv, Yv, case["n_iter"])
    yv_log = [(pr["yv"], pr["preds"]) for pr in log["predicts"]]
    require(Xt.shape == (nt, X.shape[1]) and Xv.shape == (nv, X.shape[1]) and Yt.shape == (nt,) and Yv.shape == (nv,), "learn:sizes_unchanged", "shapes %r %r %r %r" % (Xt.shape, Yt.shape, Xv.shape, Yv.shape))
    after = _multiset((Xt, Yt), (Xv, Yv))
    require(after == before, "learn:samples_conserved", lambda: "multiset of (features, label) over train+validation changed: lost %r, gained %r" % (
        [p for p in before if before.count(p) > after.count(p)][:4], [p for p in after if after.count(p) > before.count(p)][:4]))
    iters = len(yv_log)
    require(1 <= iters <= case["n_iter"] and len(log["fits"]) == iters, "learn:iteration_count", "%d accuracy evaluations, %d fits, n_iterations=%d" % (iters, len(log["fits"]), case["n_iter"]))
    accs = []
    for lab, pr in yv_log:
        K = max(max(lab), max(pr)) + 1
        # the statement's measure, evaluated with every class that occurs (a swap may remove the top class from the validation labels)
        lab_full = lab
        accs.append(_acc(lab_full, pr, K))
    best = max(accs)
    cands = [i for i, a in enumerate(accs) if abs(a - best) <= 1e-12]
    s = models.node_state(m)
    feats = [[float(v) for v in nd.features] for nd in m.subgraph.nodes]
    ok_any = False
    why = ""
    for i in cands:
        snap = log["fits"][i]
        if feats != snap["X"] or s["label"] != snap["Y"]:
            why = "final nodes are not iteration %d's training set" % (i + 1)
            continue
        fresh = libcall(models.classes()["sup"], distance=case["metric"])
        if P is not None:
            models.set_pre(fresh, P)
        libcall(fresh.fit, np.array(snap["X"], dtype=float), np.array(snap["Y"], dtype=int))
        fs = models.node_state(fresh)
        same = all(fs[f] == s[f] for f in ("cost", "pred", "status", "predicted_label", "idx_nodes"))
        if not same:
            why = "final forest differs from a fresh fit on iteration %d's training set" % (i + 1)
            continue
        # ... and the classifier left in the object really is the one that predicts afterwards
        probe = X.copy()
        p_obj = [int(v) for v in libcall(m.predict, probe.copy())]
        p_fresh = [int(v) for v in libcall(fresh.predict, probe.copy())]
        if p_obj != p_fresh:
            why = "after learn() the object predicts %r, a fresh fit on the kept iteration's training set predicts %r" % (p_obj, p_fresh)
            continue
        ok_any = True
    require(ok_any, "learn:keeps_best_model", lambda: "accuracies per iteration %r (best at %r); %s; final node labels %r" % (accs, [c + 1 for c in cands], why, s["label"]))
    swaps = sum(1 for i in range(1, iters) if log["fits"][i]["X"] != log["fits"][i - 1]["X"] or log["fits"][i]["Y"] != log["fits"][i - 1]["Y"])
    nontriv = iters >= 2 and swaps >= 1 and len(set(accs)) >= 2
    cl = ["learn", "iters=%d" % iters]
    if P is not None:
        cl.append("learn_pre_computed")
    if case.get("learn_before"):
        cl.append("learn_after_earlier_learn")
    if swaps:
        cl.append("swapped")
    if cands and cands[0] != iters - 1:
        cl.append("best_is_not_last")
    return Outcome.ok(nontrivial=nontriv, classes=cl)


def _acc(lab, pr, K):
    from fractions import Fraction

    n = len(lab)
    counts = [sum(1 for v in lab if v == c) for c in range(K)]
    tot = Fraction(0)
    for c in range(K):
        fp = sum(1 for a, b in zip(lab, pr) if b == c and a != c)
        fn = sum(1 for a, b in zip(lab, pr) if a == c and b != c)
        if n - counts[c] > 0:
            tot += Fraction(fp, n - counts[c])
        if counts[c] > 0:
            tot += Fraction(fn, counts[c])
    return float(1 - tot / (2 * K))


def _match_leaves(leaves, cand_sets):
    """bipartite matching: every leaf needs its own query x with leaf in cand_sets[x]"""
    match = {}

    def try_(l, seen):
        for x, cs in enumerate(cand_sets):
            if l in cs and x not in seen:
                seen.add(x)
                if x not in match or try_(match[x], seen):
                    match[x] = l
                    return True
        return False

    return all(try_(l, set()) for l in leaves)


def relevance_errors(state, W_tq, rel):
    """state: node_state after fit; W_tq[q][t] = d(t, x_q); rel: flags after ONE predict pass"""
    n = state["n_nodes"]
    pred = state["pred"]
    R = {i for i in range(n) if rel[i] == 1}

    def anc(c):
        out = {c}
        while pred[c] != -1:
            c = pred[c]
            out.add(c)
        return out

    for r in R:
        if not anc(r) <= R:
            return "relevant:ancestor_closed", "node %d is relevant but its ancestors %r are not all relevant (R=%r)" % (r, sorted(anc(r)), sorted(R))
    cands = []
    for q, dq in enumerate(W_tq):
        _, m, vals = oracles.argmin_labels(state["cost"], state["predicted_label"], dq)
        A = {t for t, v in enumerate(vals) if v == m}
        C = {c for c in A if anc(c) <= R}
        if not C:
            return "relevant:conqueror_and_ancestors_flagged", "query %d: no member of its arg-min set %r has itself and all ancestors flagged (R=%r)" % (q, sorted(A), sorted(R))
        cands.append(C)
    children_in_R = {pred[r] for r in R if pred[r] != -1}
    leaves = [r for r in R if r not in children_in_R]
    if not _match_leaves(leaves, cands):
        return "relevant:no_other_sample_flagged", "flagged set %r cannot be explained by any choice of conquerors (leaves %r, candidate conquerors per query %r)" % (sorted(R), sorted(leaves), [sorted(c) for c in cands])
    return None


def check_relevance(case):
    np = models.np()
    nt, nv = case["nt"], case["nv"]
    X = np.array(case["X"], dtype=float)
    Xt, Xv = X[:nt], X[nt:]
    m = libcall(models.classes()["sup"], distance=case["metric"])
    libcall(m.fit, Xt.copy(), np.array(case["Y"], dtype=int))
    s = models.node_state(m)
    require(all(r == 0 for r in s["relevant"]), "relevant:none_before_predict", "flags after fit: %r" % s["relevant"])
    libcall(m.predict, Xv.copy())
    rel = [int(nd.relevant) for nd in m.subgraph.nodes]
    W = [[row[0] for row in models.eval_matrix(case["metric"], case["X"][:nt], [case["X"][nt + q]])] for q in range(nv)]
    err = relevance_errors(s, W, rel)
    if err:
        require(False, err[0], err[1] + " costs=%r order=%r" % (s["cost"], s["idx_nodes"]))
    irrelevant = rel.count(0)
    first = s["idx_nodes"][0]
    cl = ["relevance"]
    if rel[first]:
        cl.append("first_of_conquest_order_relevant")
    return Outcome.ok(nontrivial=irrelevant >= 1, classes=cl)


def check_prune(case):
    np = models.np()
    nt, nv = case["nt"], case["nv"]
    X = np.array(case["X"], dtype=float)
    Xt, Xv = X[:nt].copy(), X[nt:].copy()
    Yt, Yv = np.array(case["Y"], dtype=int), np.array(case["Yv"], dtype=int)
    orig = _multiset((Xt, Yt))
    pristine = [a.tobytes() for a in (Xt, Yt, Xv, Yv)]
    Recording, log = _recording_class()
    m = libcall(Recording, distance=case["metric"])
    known = []
    if case["seed"] % 3 == 0:
        # the object already holds a trained classifier of the same size (fitted on the rows in reverse order, with relevance flags
        # from a prediction): pruning starts from the data it is given, not from what the object happens to hold
        libcall(m.fit, Xt[::-1].copy(), Yt.copy())
        libcall(m.predict, Xv.copy())
        log["fits"].clear()
        log["predicts"].clear()
    try:
        libcall(m.prune, Xt, Yt, Xv, Yv, case["n_iter"])
    except lib.LibError as le:
        last = log["fits"][-1] if log["fits"] else None
        # K1: the fit on a single-class retained set leaves an empty conquest order and the following predict indexes into it
        # (whichever private helper of models.supervised does the indexing)
        k1 = (le.clause.startswith("exception:IndexError@models.supervised") and last is not None and len(set(last["Y"])) < 2 and len(last["Y"]) >= 1)
        if k1 and is_known("K1"):
            known = ["K1"]
        else:
            raise
    require([a.tobytes() for a in (Xt, Yt, Xv, Yv)] == pristine, "prune:caller_arrays_untouched", "prune modified the caller's arrays")
    fits = log["fits"]
    require(len(fits) >= 1 and fits[0]["X"] == Xt.tolist() and fits[0]["Y"] == [int(v) for v in Yt], "prune:starts_from_given_training_set", lambda: "the first fit inside prune received %r" % (fits[0] if fits else None,))
    for i in range(1, len(fits)):
        prev = fits[i]["prev"]
        exp = [(f, l) for f, l, r in prev if r == 1]
        got = list(zip(fits[i]["X"], fits[i]["Y"]))
        require(got == exp, "prune:retains_exactly_relevant", lambda: "iteration %d: fit received %r, relevant nodes of the previous model were %r" % (i, got, exp))
    final = _multiset(([nd.features for nd in m.subgraph.nodes], [nd.label for nd in m.subgraph.nodes]))
    rest = list(orig)
    for p in final:
        require(p in rest, "prune:sub_multiset_of_original", lambda: "final node %r is not an original (features, label) pair (or occurs too often)" % (p,))
        rest.remove(p)
    discarded = nt - len(final)
    cl = ["prune", "fits=%d" % len(fits)]
    if known:
        cl.append("K1_single_class_retained_set")
    return Outcome.ok(nontrivial=discarded >= 1 and not known, classes=cl, known=known)


def check_case(case):
    if case["t"] == "learn":
        return check_learn(case)
    if case["t"] == "relevance":
        return check_relevance(case)
    return check_prune(case)
