"""C16 -- the neighbourhood size chosen by training is the best candidate."""
from fractions import Fraction

from hypothesis import strategies as st

from ..common import knncase
from ..common.outcome import Outcome, require

ID = "C16"
RULE = (
    "KNNSupervisedOPF and UnsupervisedOPF fits as in C13 with max_k >= 2 forced in ~80% of the cases (the suite never exceeds 1). The criterion is observed from outside: "
    "opfython.math.general.opf_accuracy (KNN) and the instance's _normalized_cut (unsupervised) are wrapped to record (subgraph.best_k at call time, value). "
    "Oracle KNN: every candidate 1..max_k is evaluated exactly once (in any order), the validation predictions of candidate k equal those of a model built from scratch with that k alone (fresh sub-graph), each recorded accuracy equals the C20 reference on the recorded labels/predictions, best_k == smallest k with the maximal value, "
    "and the final model is built with it (stored min/max density == reference pdf over the best_k smallest distances with the stored constant). "
    "Oracle unsupervised: each recorded cut equals an independent evaluation of the normalised cut on the live sub-graph (all arcs incl. plateau arcs); candidates are distinct values of min_k..max_k, the full range unless some evaluated cut is exactly 0, best_k == smallest evaluated k with the minimal cut, final adjacency length and stored density range consistent with best_k. "
    "non-trivial: >= 2 candidates with >= 2 distinct criterion values and the best is not the first candidate; distinct by case hash"
)
ASSUMPTIONS = ["criterion values are taken as the library computes them (accuracy additionally re-computed from the recorded arguments with the C20 reference)"]
BUDGET = {
    "quick": {"examples": 9600, "shards": 16, "min_nontrivial": 150},
    "thorough": {"examples": 160000, "shards": 16, "min_nontrivial": 2000, "max_wall": 3000},
}


def strategy(tier):
    return knncase.knn_case(nmax=12 if tier == "quick" else 24, kmax_force=True)


def ref_accuracy(lab, pr):
    n = len(lab)
    K = max(lab) + 1
    counts = [sum(1 for v in lab if v == c) for c in range(K)]
    tot = Fraction(0)
    for c in range(K):
        fp = sum(1 for a, b in zip(lab, pr) if b == c and a != c)
        fn = sum(1 for a, b in zip(lab, pr) if a == c and b != c)
        if n - counts[c] > 0:
            tot += Fraction(fp, n - counts[c])
        if counts[c] > 0:
            tot += Fraction(fn, counts[c])
    return float(1 - tot / (2 * K))


def check_case(case):
    r = knncase.run(case, predict=False)
    if isinstance(r, str):
        return Outcome.discard(r)
    s = r.state
    crit = r.criterion
    best = s["sg_best_k"]
    cl = ["model_" + case["model"], "max_k=%d" % case["max_k"]]
    if case["model"] == "knn":
        ks = [c[0] for c in crit]
        # every candidate 1..max_k is evaluated exactly once (the ORDER of evaluation is not part of the statement)
        require(sorted(ks) == list(range(1, case["max_k"] + 1)), "knn:candidates_1_to_max_k", "candidates evaluated: %r, max_k=%d" % (ks, case["max_k"]))
        vals = [c[1] for c in crit]
        for k, v, lab, pr in crit:
            if all(0 <= p <= max(lab) for p in pr):
                ref = ref_accuracy(lab, pr)
                require(abs(v - ref) <= 1e-12, "knn:criterion_is_validation_accuracy", lambda: "k=%d accuracy %r, definition gives %r" % (k, v, ref))
        # differential: candidate k evaluated inside the search loop == a model built from scratch with that k alone
        # (fresh sub-graph, arcs, density, clustering through the library's own routines, then predict on the validation set)
        from ..common import lib, models
        from ..common.lib import libcall
        from opfython.subgraphs.knn import KNNSubgraph

        fa = r.fit_args
        np = models.np()
        for ci, (k, v, lab, pr) in enumerate(crit):
            if not hasattr(r.model, "_clustering"):
                cl.append("differential_unavailable")  # the clustering routine was renamed: the differential is skipped, not failed
                break
            kw = {"distance": case["metric"]} if case["mode"] == "feat" else {}
            m2 = libcall(models.classes()["knn"], max_k=case["max_k"], **kw)
            if case["mode"] == "pre":
                m2.pre_computed_distance = True
                m2.pre_distances = np.asarray(r.model.pre_distances).copy()
            sg = libcall(KNNSubgraph, fa["Xtr"].copy(), fa["Y"].copy(), None if fa["I_tr"] is None else fa["I_tr"].copy())
            m2.subgraph = sg
            sg.best_k = k
            libcall(sg.create_arcs, k, m2.distance_fn, m2.pre_computed_distance, m2.pre_distances)
            # the search keeps ONE sub-graph whose density bound is a running value (it can stick at the fallback 1 after k=1 on
            # duplicated data) - not claimed by any listed property; the from-scratch model is given the same bound
            sg.density = r.loop_density[ci]
            libcall(sg.calculate_pdf, k, m2.distance_fn, m2.pre_computed_distance, m2.pre_distances)
            libcall(m2._clustering)
            p2 = [int(x) for x in libcall(m2.predict, fa["Xv"].copy(), None if fa["I_v"] is None else fa["I_v"].copy())]
            require(p2 == pr, "knn:candidate_k_is_the_plain_k_model", lambda: "k=%d: the search loop's validation predictions %r differ from those of a model built from scratch with k=%d: %r" % (k, pr, k, p2))
        exp = min(k_ for k_, v_ in zip(ks, vals) if v_ == max(vals))
        require(best == exp, "knn:smallest_k_with_highest_accuracy", lambda: "best_k=%d, accuracies per k: %r -> expected %d" % (best, list(zip(ks, vals)), exp))
    else:
        ks = [c[0] for c in crit]
        vals = [c[1] for c in crit]
        require(all(c[0] == c[2] for c in crit), "unsup:best_k_tracks_candidate", "recorded %r" % crit)
        for bk, v, k_, ref in crit:
            require(abs(v - ref) <= 1e-9 * (1 + abs(ref)), "unsup:criterion_is_normalised_cut", lambda: "k=%d: cut routine returned %r, the normalised cut of the live clustering is %r" % (k_, v, ref))
        full = list(range(case["min_k"], case["max_k"] + 1))
        require(len(ks) >= 1 and len(set(ks)) == len(ks) and set(ks) <= set(full), "unsup:candidates_within_range", "candidates %r, range [%d,%d]" % (ks, case["min_k"], case["max_k"]))
        if set(ks) != set(full):
            # evaluation may stop (only) after a cut of exactly 0
            require(0.0 in vals, "unsup:early_stop_only_after_zero_cut", lambda: "candidates %r of range [%d,%d] evaluated although no cut is 0: %r" % (ks, case["min_k"], case["max_k"], vals))
            cl.append("zero_cut_stop")
        exp = min(k_ for k_, v_ in zip(ks, vals) if v_ == min(vals))
        require(best == exp, "unsup:smallest_k_with_lowest_cut", lambda: "best_k=%d, cuts per k: %r -> expected %d" % (best, list(zip(ks, vals)), exp))
        # final clustering uses best_k: k nearest + plateau arcs
        for i in range(case["nt"]):
            require(r.adj_len[i] == best + r.n_plateaus[i], "unsup:final_arcs_use_best_k", lambda: "node %d has %d arcs, best_k=%d, plateaus=%d" % (i, r.adj_len[i], best, r.n_plateaus[i]))
    # final model built with best_k: stored density range == pdf over the best_k smallest distances with the stored constant
    const = s["sg_constant"]
    require(const > 0 and const == const, "final_model_uses_best_k", "stored density constant is %r (must be 2/9 of a positive density bound)" % const)
    pdf = knncase.ref_pdf_from_distances(r.D, best, const)
    lo, hi = min(pdf), max(pdf)
    require(abs(s["sg_min_density"] - lo) <= 1e-9 * abs(lo) + 1e-300 and abs(s["sg_max_density"] - hi) <= 1e-9 * abs(hi) + 1e-300, "final_model_uses_best_k",
            lambda: "stored density range (%r, %r); with k=best_k=%d and the stored constant the range is (%r, %r)" % (s["sg_min_density"], s["sg_max_density"], best, lo, hi))
    # ... and its clustering used arcs of the best_k-NN graph (decided from outside on distances, as in C13)
    rk = knncase.kth_smallest_radius(r.D, best)
    dens, pred = s["density"], s["pred"]
    for i in range(case["nt"]):
        p = pred[i]
        if p != -1:
            nb = r.D[p][i] <= rk[p] or (r.D[i][p] <= rk[i] and dens[p] == dens[i])
            require(nb, "final_clustering_uses_best_k", lambda: "node %d was conquered by %d at distance %r, outside the best_k=%d neighbourhood (radius %r)" % (i, p, r.D[p][i], best, rk[p]))
    if len(set(vals)) == 1 and len(vals) > 1:
        cl.append("all_equal")
    nt = len(vals) >= 2 and len(set(vals)) >= 2 and best != min(ks)
    if best != min(ks):
        cl.append("best_not_first")
    return Outcome.ok(nontrivial=nt, classes=cl)
