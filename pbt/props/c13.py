"""C13 -- density clustering produces a well-formed forest that partitions the samples."""
from hypothesis import strategies as st

from ..common import gen, knncase, lib
from ..common.lib import libcall
from ..common.outcome import Outcome, require

ID = "C13"
RULE = (
    "KNNSupervisedOPF (train + validation covering all classes, max_k 1..5) and UnsupervisedOPF (min_k <= max_k <= n-1) on generic / lattice / positive / duplicate-containing feature data "
    "with a drawn symmetric metric, and on pre-computed matrices with 1-4 weight levels (heavy ties). Oracle (cluster_forest_ok): predecessor links acyclic, every sample reaches one root and "
    "records it; cluster id (unsupervised) / assigned label (KNN) equals the root's (and the root's true label for KNN); root cost == density; non-root cost == min(cost(pred), density) exactly "
    "and > density-1; the predecessor was a graph neighbour, decided from outside on distances (d(p,q) <= r_k(p), or d(q,p) <= r_k(q) on an equal-density plateau, k = best_k); "
    "density(q) < density(root)+1; n_clusters == number of roots with ids exactly 0..n_clusters-1; propagate_labels gives every sample its root's true label. "
    "non-trivial: >= 2 roots and a tree of depth >= 2; distinct by case hash"
)
ASSUMPTIONS = ["the neighbour clause is a necessary condition when the k-th distance ties (DESIGN.md section 8 (iii))"]
BUDGET = {
    "quick": {"examples": 9600, "shards": 16, "min_nontrivial": 300},
    "thorough": {"examples": 128000, "shards": 16, "min_nontrivial": 3000, "max_wall": 3000},
}


@st.composite
def near_tied_case(draw, nlo, nhi):
    """larger jittered-lattice sets under the Euclidean family, fixed small k: nearly tied but unequal densities between
    asymmetric neighbours - the regime in which an already removed sample can be offered a better cost by a root lifted afterwards"""
    nt = draw(st.integers(nlo, nhi))
    dim = draw(st.sampled_from([1, 2, 2, 2]))
    side = draw(st.integers(3, 6))
    base = draw(st.lists(st.lists(st.integers(0, side - 1), min_size=dim, max_size=dim), min_size=nt, max_size=nt))
    jit = draw(st.lists(st.lists(st.integers(-8, 8), min_size=dim, max_size=dim), min_size=nt, max_size=nt))
    js = draw(st.sampled_from([0.0001220703125, 0.0001220703125, 0.0009765625, 0.00006103515625]))
    X = [[b + j_ * js for b, j_ in zip(p_, q_)] for p_, q_ in zip(base, jit)]
    k = draw(st.sampled_from([2, 2, 3]))
    metric = draw(st.sampled_from(["euclidean", "squared_euclidean", "log_squared_euclidean"]))
    if draw(st.integers(0, 2)) == 0:
        # the same regime for the KNN-supervised model: few classes (long same-class chains), validation rows appended
        Y = draw(gen.labels(nt, 1, 2))
        K = max(Y) + 1
        nv = draw(st.integers(K, K + 3))
        Xv = draw(st.lists(st.lists(st.integers(0, side - 1).map(float), min_size=dim, max_size=dim), min_size=nv, max_size=nv))
        return {"model": "knn", "mode": "feat", "nt": nt, "nq": 0, "nv": nv, "max_k": k, "Y": Y, "Yv": draw(gen.labels(nv, K, K)), "X": X + Xv,
                "metric": metric, "pkind": "near_tied_lattice"}
    return {"model": "unsup", "mode": "feat", "nt": nt, "nq": 0, "nv": 0, "max_k": k, "min_k": k, "Y": None, "X": X,
            "metric": metric, "pkind": "near_tied_lattice"}


def strategy(tier):
    gen_ = knncase.knn_case(nmax=14 if tier == "quick" else 24, kmax_force=True)
    near = near_tied_case(12, 30) if tier == "quick" else near_tied_case(12, 45)
    return st.one_of(gen_, gen_, gen_, near)


def cluster_forest_ok(r, case):
    s = r.state
    n = s["n_nodes"]
    pred, cost, dens, root = s["pred"], s["cost"], s["density"], s["root"]
    k = s["sg_best_k"]
    require(1 <= k <= case["max_k"], "best_k:in_range", "best_k %r" % k)
    rk = knncase.kth_smallest_radius(r.D, k)
    roots = [i for i in range(n) if pred[i] == -1]
    depth2 = False
    for i in range(n):
        seen = set()
        j = i
        while pred[j] != -1:
            require(j not in seen, "forest:no_cycle", "cycle from node %d" % i)
            seen.add(j)
            j = pred[j]
            require(0 <= j < n, "forest:pred_in_range", "node %d pred %r" % (i, j))
        if len(seen) >= 2:
            depth2 = True
        require(root[i] == j, "forest:recorded_root", lambda: "node %d records root %d but reaches %d (pred=%r)" % (i, root[i], j, pred))
        if case["model"] == "unsup":
            require(s["cluster_label"][i] == s["cluster_label"][j], "forest:cluster_of_root", "node %d cluster %r, root %d cluster %r" % (i, s["cluster_label"][i], j, s["cluster_label"][j]))
        else:
            require(s["predicted_label"][i] == s["predicted_label"][j] == case["Y"][j], "forest:label_of_root",
                    lambda: "node %d assigned %r, root %d assigned %r, root true label %r" % (i, s["predicted_label"][i], j, s["predicted_label"][j], case["Y"][j]))
        require(dens[i] < dens[j] + 1, "forest:density_below_root_plus_1", "node %d density %r, root %d density %r" % (i, dens[i], j, dens[j]))
        p = pred[i]
        if p == -1:
            require(cost[i] == dens[i], "root:cost_is_density", "root %d cost %r density %r" % (i, cost[i], dens[i]))
        else:
            exp = min(cost[p], dens[i])
            require(cost[i] == exp, "link:cost_min", lambda: "node %d cost %r != min(cost(pred %d)=%r, density=%r)" % (i, cost[i], p, cost[p], dens[i]))
            require(cost[i] > dens[i] - 1, "link:strictly_above_density_minus_1", "node %d cost %r density %r" % (i, cost[i], dens[i]))
            nb = r.D[p][i] <= rk[p] or (r.D[i][p] <= rk[i] and dens[p] == dens[i])
            require(nb, "link:graph_neighbour", lambda: "node %d (density %r) has predecessor %d (density %r): d=%r, r_k(pred)=%r, r_k(node)=%r, k=%d" % (i, dens[i], p, dens[p], r.D[p][i], rk[p], rk[i], k))
    cl = []
    if case["model"] == "unsup":
        require(s["sg_n_clusters"] == len(roots), "n_clusters:number_of_roots", "n_clusters %r, roots %r" % (s["sg_n_clusters"], roots))
        ids = sorted(s["cluster_label"][j] for j in roots)
        require(ids == list(range(len(roots))), "n_clusters:root_ids", "root cluster ids %r" % ids)
        model = r.model
        libcall(model.propagate_labels)
        Y = case.get("Y") or [0] * n
        for i in range(n):
            got = int(model.subgraph.nodes[i].predicted_label)
            require(got == Y[root[i]], "propagate:true_label_of_root", lambda: "node %d gets %r, its root %d has true label %r" % (i, got, root[i], Y[root[i]]))
    plateau = any(dens[i] == dens[j] and (r.D[i][j] <= rk[i]) for i in range(n) for j in range(n) if i != j)
    if plateau:
        cl.append("plateau")
    if len(roots) >= 2:
        cl.append("roots>=2")
    if depth2:
        cl.append("depth>=2")
    return (len(roots) >= 2 and depth2), cl


def check_case(case):
    r = knncase.run(case, predict=False)
    if isinstance(r, str):
        return Outcome.discard(r)
    nt, cl = cluster_forest_ok(r, case)
    cl += ["model_" + case["model"], "mode_" + case["mode"], "max_k=%d" % case["max_k"]]
    return Outcome.ok(nontrivial=nt, classes=cl)
