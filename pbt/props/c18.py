"""C18 -- splitting, merging, loading, parsing and converting preserve every sample."""
import json
import math
import os
import struct
import subprocess
import sys
import tempfile

from hypothesis import strategies as st

from ..common import gen, lib, models
from ..common.lib import libcall, libcall_expect
from ..common.outcome import Outcome, require

ID = "C18"
RULE = (
    "split: X with 1..40 rows x 1..5 dims (rows unique through an id column, or a duplicate-rows class), labels, percentage in [0,1] (0, 1, k/n and values where n*p is an ulp from an integer included), "
    "seed in 0..2^32-1, arbitrary prior global RNG state. Oracle: the two outputs partition the rows (multiset union = input, index arrays disjoint, X_1[r]==X[I_1[r]], Y_1[r]==Y[I_1[r]]), "
    "len(first)==floor(n*p), same seed => identical outputs whatever the RNG state before, split == split_with_index, merge(split) == input up to order with labels paired. "
    "convert: OPF binary files built with struct (1..30 samples, 1..8 dims, labels 1..K all present, arbitrary int32 ids, float32 features from the whole finite range incl. subnormals and +-0) -> "
    "opf2txt / opf2csv / opf2json -> load_* -> parse_loader: X == stored float32 values exactly, Y == label-1, ids preserved, the three formats agree, Subgraph(from_file) has the same nodes. "
    "parse: label columns (sequential, with a gap, not starting at 0) -> ValueError iff the label set is not {0..K-1}. thorough: atheris byte-driven binary files. "
    "non-trivial: split with n>=3, >=2 classes, 0<floor(n*p)<n; convert with dims != 2, n != 100, ids not 1..n; distinct by case hash"
)
ASSUMPTIONS = ["non-negative integer labels (negative labels are outside every caller's domain)"]
BUDGET = {
    "quick": {"examples": 9600, "shards": 16, "min_nontrivial": 600, "atheris_runs": 0},
    "thorough": {"examples": 64000, "shards": 16, "min_nontrivial": 10000, "atheris_runs": 400000, "max_wall": 3000},
}

F32_MAX = 3.4028234663852886e38


def _f32(v):
    return struct.unpack("<f", struct.pack("<f", v))[0]


F32 = st.one_of(
    st.floats(width=32, allow_nan=False, allow_infinity=False),
    st.sampled_from([0.0, -0.0, 1e-45, -1e-45, 1.17549435e-38, 1e30, -1e30, 1e-30, F32_MAX, -F32_MAX, 1.0, 0.1, 1 / 3]).map(_f32),
    st.integers(-1000, 1000).map(lambda k: _f32(k / 8.0)),
)


@st.composite
def _split_case(draw):
    n = draw(st.one_of(st.integers(1, 8), st.integers(1, 40)))
    d = draw(st.integers(1, 5))
    dup = draw(st.integers(0, 4)) == 0
    e = st.one_of(st.integers(-5, 5).map(float), st.floats(-1e6, 1e6, allow_nan=False))
    X = draw(st.lists(st.lists(e, min_size=d, max_size=d), min_size=n, max_size=n))
    if dup:
        if n >= 2:
            X[1] = list(X[0])
    else:
        X = [[float(i)] + row[1:] for i, row in enumerate(X)]  # id column: rows unique
    Y = draw(st.lists(st.integers(0, 3), min_size=n, max_size=n))
    pk = draw(st.sampled_from(["float", "float", "k/n", "zero", "one", "edge"]))
    if pk == "float":
        p = draw(st.floats(0.0, 1.0, allow_nan=False))
    elif pk == "k/n":
        p = draw(st.integers(0, n)) / n
    elif pk == "zero":
        p = 0.0
    elif pk == "one":
        p = 1.0
    else:
        k = draw(st.integers(0, n))
        p = min(1.0, max(0.0, math.nextafter(k / n, draw(st.sampled_from([0.0, 1.0])))))
    return {"t": "split", "X": X, "Y": Y, "p": p, "seed": draw(st.integers(0, 2**32 - 1)), "noise": draw(st.integers(0, 2**32 - 1)), "dup": dup}


@st.composite
def _convert_case(draw):
    n = draw(st.one_of(st.integers(1, 4), st.integers(1, 30)))
    d = draw(st.integers(1, 8))
    K = draw(st.integers(1, min(4, n)))
    lab = [v + 1 for v in draw(gen.labels(n, K, K))]
    idk = draw(st.sampled_from(["seq", "arbitrary", "arbitrary"]))
    if idk == "seq":
        ids = list(range(1, n + 1))
    else:
        ids = draw(st.lists(st.integers(0, 2**31 - 1), min_size=n, max_size=n))
    feats = draw(st.lists(st.lists(F32, min_size=d, max_size=d), min_size=n, max_size=n))
    return {"t": "convert", "ids": ids, "labels": lab, "feats": feats, "K": K}


@st.composite
def _parse_case(draw):
    n = draw(st.integers(1, 12))
    kind = draw(st.sampled_from(["sequential", "gap", "not_from_zero", "random"]))
    if kind == "sequential":
        K = draw(st.integers(1, min(4, n)))
        lab = draw(gen.labels(n, K, K))
    elif kind == "gap":
        lab = draw(st.lists(st.sampled_from([0, 1, 3, 4]), min_size=n, max_size=n))
    elif kind == "not_from_zero":
        lab = draw(st.lists(st.integers(1, 3), min_size=n, max_size=n))
    else:
        lab = draw(st.lists(st.integers(0, 5), min_size=n, max_size=n))
    d = draw(st.integers(1, 3))
    feats = draw(st.lists(st.lists(st.integers(-9, 9).map(float), min_size=d, max_size=d), min_size=n, max_size=n))
    return {"t": "parse", "labels": lab, "feats": feats}


def strategy(tier):
    return st.one_of(_split_case(), _split_case(), _split_case(), _convert_case(), _convert_case(), _parse_case())


def write_opf(path, ids, labels, feats, K):
    n, d = len(ids), len(feats[0])
    with open(path, "wb") as fh:
        fh.write(struct.pack("<iii", n, K, d))
        for i in range(n):
            fh.write(struct.pack("<ii" + "f" * d, ids[i], labels[i], *feats[i]))


def _rows(X, Y):
    return sorted((tuple(float(v) for v in r), int(y)) for r, y in zip(X, Y))


def check_split(case):
    lib.setup()
    np = models.np()
    import opfython.stream.splitter as sp

    X = np.array(case["X"], dtype=float)
    Y = np.array(case["Y"], dtype=int)
    n = len(X)
    p, seed = case["p"], case["seed"]
    X0, Y0 = X.copy(), Y.copy()
    np.random.seed(case["noise"] % (2**32))
    np.random.rand(3)
    a = libcall(sp.split_with_index, X, Y, p, seed)
    np.random.seed((case["noise"] + 12345) % (2**32))
    np.random.rand(7)
    b = libcall(sp.split_with_index, X, Y, p, seed)
    c = libcall(sp.split, X, Y, p, seed)
    require(np.array_equal(X, X0) and np.array_equal(Y, Y0), "split:inputs_unchanged", "split modified its arguments")
    X1, X2, Y1, Y2, I1, I2 = a
    exp_first = math.floor(n * p)
    require(len(X1) == len(Y1) == len(I1) == exp_first, "split:first_set_size", lambda: "first set has %d/%d/%d rows, floor(%d*%r)=%d" % (len(X1), len(Y1), len(I1), n, p, exp_first))
    require(len(X2) == len(Y2) == len(I2) == n - exp_first, "split:second_set_size", "second set sizes %d/%d/%d, expected %d" % (len(X2), len(Y2), len(I2), n - exp_first))
    allI = [int(i) for i in I1] + [int(i) for i in I2]
    require(sorted(allI) == list(range(n)), "split:each_sample_in_exactly_one_set", lambda: "index arrays %r + %r do not partition 0..%d" % (list(I1), list(I2), n - 1))
    for Xs, Ys, Is, nm in ((X1, Y1, I1, "first"), (X2, Y2, I2, "second")):
        for r in range(len(Is)):
            i = int(Is[r])
            require(np.array_equal(Xs[r], X0[i]) and int(Ys[r]) == int(Y0[i]), "split:row_keeps_own_label_and_index", lambda: "%s set row %d claims original index %d: features %r label %r, original %r / %r" % (nm, r, i, Xs[r].tolist(), int(Ys[r]), X0[i].tolist(), int(Y0[i])))
    for u, v in zip(a, b):
        require(np.array_equal(u, v), "split:deterministic_in_seed", "same seed gave different outputs after a different global RNG state")
    for u, v in zip(c, (X1, X2, Y1, Y2)):
        require(np.array_equal(u, v), "split:split_agrees_with_split_with_index", "split() and split_with_index() differ for the same arguments")
    require(_rows(list(c[0]) + list(c[1]), list(c[2]) + list(c[3])) == _rows(X0, Y0), "split:multiset_preserved", "rows/labels of the two sets are not the input's")
    Xm, Ym = libcall(sp.merge, c[0], c[1], c[2], c[3])
    require(_rows(Xm, Ym) == _rows(X0, Y0), "merge:gives_back_input", "merge(split(X, Y)) differs from (X, Y) as a multiset of (row, label)")
    nt = n >= 3 and len(set(case["Y"])) >= 2 and 0 < exp_first < n
    cl = ["split", "dup_rows" if case["dup"] else "unique_rows"]
    if exp_first in (0, n):
        cl.append("empty_side")
    return Outcome.ok(nontrivial=nt, classes=cl)


def check_convert(case):
    lib.setup()
    np = models.np()
    import opfython.stream.loader as ld
    import opfython.stream.parser as ps
    import opfython.utils.converter as cv
    from opfython.core.subgraph import Subgraph

    ids, labels, feats, K = case["ids"], case["labels"], case["feats"], case["K"]
    feats = [[_f32(v) for v in row] for row in feats]
    n, d = len(ids), len(feats[0])
    results = {}
    with tempfile.TemporaryDirectory(prefix="c18-") as tmp:
        src = os.path.join(tmp, "data.dat")
        if n % 2 == 0:
            # the same path held another data set before and was converted once already (same process)
            write_opf(src, list(range(1, n + 2)), [1] * (n + 1), [[1.5] * d for _ in range(n + 1)], 1)
            for conv_, ext_ in ((cv.opf2txt, "txt"), (cv.opf2csv, "csv"), (cv.opf2json, "json")):
                libcall(conv_, src, os.path.join(tmp, "old." + ext_))
        write_opf(src, ids, labels, feats, K)
        for ext, conv, load in (("txt", cv.opf2txt, ld.load_txt), ("csv", cv.opf2csv, ld.load_csv), ("json", cv.opf2json, ld.load_json)):
            out = os.path.join(tmp, "out." + ext)
            libcall(conv, src, out)
            require(os.path.exists(out), "convert:file_written", "%s not written" % ext)
            data = libcall(load, out)
            require(data is not None, "load:returns_data", "load_%s returned None" % ext)
            X, Y = libcall(ps.parse_loader, data)
            require(X is not None and Y is not None, "parse:returns_arrays", "parse_loader returned None for %s" % ext)
            X, Y = np.asarray(X), np.asarray(Y)
            data = np.asarray(data)
            require(X.shape == (n, d) and Y.shape == (n,), "convert:shape", lambda: "%s: X %r Y %r expected (%d,%d)" % (ext, X.shape, Y.shape, n, d))
            for i in range(n):
                require([float(v) for v in X[i]] == feats[i], "convert:features_exact_float32", lambda: "%s row %d: %r, stored float32 values %r" % (ext, i, [float(v) for v in X[i]], feats[i]))
                require(int(Y[i]) == labels[i] - 1, "convert:label_minus_1", lambda: "%s row %d: label %r, stored %d" % (ext, i, Y[i], labels[i]))
                require(float(data[i][0]) == float(ids[i]), "convert:id_preserved", lambda: "%s row %d: id %r, stored %d" % (ext, i, data[i][0], ids[i]))
            require(np.issubdtype(Y.dtype, np.integer), "parse:integer_labels", "label dtype %r" % Y.dtype)
            sg = libcall(Subgraph, from_file=out)
            require(sg.n_nodes == n and sg.n_features == d, "subgraph_from_file:shape", "%s: %d nodes x %d features" % (ext, sg.n_nodes, sg.n_features))
            for i in range(n):
                require([float(v) for v in sg.nodes[i].features] == feats[i] and int(sg.nodes[i].label) == labels[i] - 1, "subgraph_from_file:same_nodes", "%s node %d differs" % (ext, i))
            results[ext] = (X.tolist(), Y.tolist())
    require(results["txt"] == results["csv"] == results["json"], "convert:three_formats_agree", "txt/csv/json differ")
    nt = d != 2 and n != 100 and ids != list(range(1, n + 1))
    cl = ["convert", "n=1" if n == 1 else "n>1", "K=%d" % K]
    return Outcome.ok(nontrivial=nt, classes=cl)


def check_parse(case):
    lib.setup()
    np = models.np()
    import opfython.stream.parser as ps
    import opfython.utils.exception as ex

    lab, feats = case["labels"], case["feats"]
    n = len(lab)
    data = np.array([[i + 1, lab[i]] + feats[i] for i in range(n)], dtype=float)
    sequential = set(lab) == set(range(max(lab) + 1))
    ok, val = libcall_expect(ps.parse_loader, ex.ValueError, data)
    require(ok == sequential, "parse:rejects_iff_non_sequential", lambda: "labels %r: sequential=%r, accepted=%r" % (sorted(set(lab)), sequential, ok))
    if ok:
        X, Y = val
        require(np.asarray(X).tolist() == feats and [int(v) for v in Y] == lab, "parse:columns", "X/Y differ from the columns")
    return Outcome.ok(nontrivial=not sequential or len(set(lab)) >= 2, classes=["parse", "sequential" if sequential else "non_sequential"])


def check_case(case):
    if case["t"] == "split":
        return check_split(case)
    if case["t"] == "convert":
        return check_convert(case)
    return check_parse(case)


# ------------------------------------------------------------------ atheris (thorough): byte-driven binary OPF files
def decode_bytes(data):
    """bytes -> convert case (total)"""
    if len(data) < 4:
        return None
    n = 1 + data[0] % 12
    d = 1 + data[1] % 6
    K = 1 + data[2] % min(3, n)
    body = data[3:]
    need = n * (5 + 4 * d)
    body = (body * (need // max(1, len(body)) + 1))[:need] if body else b"\0" * need
    ids, labels, feats = [], [], []
    off = 0
    for i in range(n):
        ids.append(struct.unpack("<i", body[off:off + 4])[0] & 0x7FFFFFFF)
        lab = (body[off + 4] % K) + 1 if i >= K else i + 1
        labels.append(lab)
        off += 5
        row = []
        for _ in range(d):
            v = struct.unpack("<f", body[off:off + 4])[0]
            off += 4
            if not math.isfinite(v):
                v = 0.0
            row.append(v)
        feats.append(row)
    return {"t": "convert", "ids": ids, "labels": labels, "feats": feats, "K": K}


def extra_engine(tier, seed, shard, nshards, rec, run_case):
    runs = BUDGET[tier].get("atheris_runs", 0) // nshards
    if runs <= 0:
        return
    try:
        import atheris  # noqa
    except Exception:
        rec.extra["atheris"] = "not installed"
        return
    wd = os.path.join(os.getcwd(), "atheris")
    os.makedirs(os.path.join(wd, "corpus"), exist_ok=True)
    cmd = [sys.executable, "-m", "pbt.fuzz.convert_target", os.path.join(wd, "corpus"), "-runs=%d" % runs, "-seed=%d" % ((seed * 1000 + shard) % (2**31 - 1) + 1),
           "-max_len=256", "-artifact_prefix=%s/" % wd, "-print_final_stats=1", "-verbosity=0"]
    p = subprocess.run(cmd, cwd=lib.VERIF_DIR, capture_output=True, text=True)
    execs = 0
    for line in (p.stderr or "").splitlines():
        if "stat::number_of_executed_units" in line:
            execs = int(line.split(":")[-1])
    rec.extra["atheris_execs"] = rec.extra.get("atheris_execs", 0) + execs
    crashes = [f for f in os.listdir(wd) if f.startswith("crash-")]
    if p.returncode != 0 and crashes:
        with open(os.path.join(wd, crashes[0]), "rb") as fh:
            case = decode_bytes(fh.read())
        out = run_case(sys.modules[__name__], case)
        rec.record(case, out, engine="atheris")
        if out.status != "violation":
            raise RuntimeError("atheris crash did not reproduce: %s" % p.stderr[-2000:])
    elif p.returncode != 0:
        raise RuntimeError("atheris target failed: %s" % p.stderr[-3000:])
    else:
        rec.evaluations += execs
        rec.engines["atheris"] = rec.engines.get("atheris", 0) + execs
