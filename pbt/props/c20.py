"""C20 -- evaluation measures match their definitions and stay within bounds."""
import math
from fractions import Fraction

from hypothesis import strategies as st

from ..common import gen, lib
from ..common.outcome import Outcome, require

ID = "C20"
RULE = (
    "K in 1..24, n in K..40, true labels covering 0..K-1 by construction, predictions in 0..K-1 (random, all correct, one wrong, all wrong, "
    "a true class never predicted), passed as lists or ndarrays of dtype int64/int32/int16/uint8/uint16; oracle = the definitions of the statement evaluated with exact rationals "
    "(accuracy, bounds, ==1 iff all correct, confusion matrix = pair counts, per-label accuracy = recall, purity in (0,1] and ==1 iff every predicted group is pure); "
    "normalize: matrices with >= 2 rows of small dyadic values plus per-column offsets up to 1.6e9 (|mean| >> std), every non-constant column compared with (v-mean)/population-std. "
    "non-trivial: K >= 2, unbalanced class counts, >= 1 error and >= 1 correct prediction (or, for normalize, >= 2 non-constant columns); distinct by case hash"
)
ASSUMPTIONS = ["column standard deviation = population standard deviation (numpy default, ddof=0)", "tolerance 1e-12 (measures), 1e-9 relative (normalize)"]
BUDGET = {
    "quick": {"examples": 16000, "shards": 16, "min_nontrivial": 1000},
    "thorough": {"examples": 200000, "shards": 16, "min_nontrivial": 30000},
}


@st.composite
def _measure_case(draw):
    K = draw(st.one_of(st.integers(1, 6), st.integers(1, 6), st.integers(7, 24)))
    n = draw(st.integers(K, max(40, K)))
    lab = draw(gen.labels(n, kmin=K, kmax=K))
    mode = draw(st.sampled_from(["random", "random", "random", "all_correct", "one_wrong", "all_wrong", "never_predicted", "few_wrong"]))
    if K == 1 and mode in ("one_wrong", "all_wrong", "never_predicted", "few_wrong"):
        mode = "all_correct"
    if mode == "random":
        pr = draw(st.lists(st.integers(0, K - 1), min_size=n, max_size=n))
    elif mode == "all_correct":
        pr = list(lab)
    elif mode == "one_wrong":
        pr = list(lab)
        i = draw(st.integers(0, n - 1))
        pr[i] = (pr[i] + draw(st.integers(1, K - 1))) % K
    elif mode == "few_wrong":
        pr = list(lab)
        for i in draw(st.lists(st.integers(0, n - 1), min_size=1, max_size=4)):
            pr[i] = draw(st.integers(0, K - 1))
    elif mode == "all_wrong":
        sh = draw(st.integers(1, K - 1))
        pr = [(v + sh) % K for v in lab]
    else:
        miss = draw(st.integers(0, K - 1))
        to = (miss + draw(st.integers(1, K - 1))) % K
        base = draw(st.lists(st.integers(0, K - 1), min_size=n, max_size=n))
        pr = [to if v == miss else v for v in base]
    return {"t": "measure", "labels": lab, "preds": pr, "as_array": draw(st.booleans()), "mode": mode,
            "dtype": draw(st.sampled_from(["int64", "int64", "int32", "int16", "uint8", "uint16"]))}


@st.composite
def _norm_case(draw):
    r = draw(st.integers(2, 12))
    c = draw(st.integers(1, 5))
    e = st.one_of(st.integers(-50, 50).map(float), st.integers(-4096, 4096).map(lambda k: k / 64.0))
    A = draw(st.lists(st.lists(e, min_size=c, max_size=c), min_size=r, max_size=r))
    # columns with a large common offset (|mean| >> std): timestamps, 1e8 + {0, 1}, ...
    offs = draw(st.lists(st.sampled_from([0.0, 0.0, 1e6, 1e8, 1.6e9, -1e7]), min_size=c, max_size=c))
    A = [[v + o for v, o in zip(row, offs)] for row in A]
    # columns on a tiny or huge scale (std of 1e-9 or 1e+9 is still a non-constant column)
    scl = draw(st.lists(st.sampled_from([1.0, 1.0, 1.0, 1e-9, 1e-12, 1e9]), min_size=c, max_size=c))
    A = [[v * s_ if o == 0.0 else v for v, s_, o in zip(row, scl, offs)] for row in A]
    return {"t": "normalize", "A": A}


@st.composite
def _big_measure_case(draw):
    """thousands of samples (chunked implementations) or hundreds of classes (class ids beyond small cached ints)"""
    how = draw(st.sampled_from(["many_samples", "many_classes"]))
    if how == "many_samples":
        K = draw(st.integers(2, 5))
        n = draw(st.sampled_from([4095, 4096, 4097, 5000, 8193]))
    else:
        K = draw(st.sampled_from([257, 258, 300]))
        n = K + draw(st.integers(0, 40))
    seed = draw(st.integers(0, 2**31 - 1))
    noise = draw(st.sampled_from([0, 1, 7]))
    return {"t": "measure", "gen": [how, K, n, seed, noise], "as_array": draw(st.booleans()), "mode": "big_" + how, "dtype": "int64"}


def _expand(case):
    """big cases are stored compactly (generator parameters) and expanded deterministically"""
    if "gen" not in case:
        return case
    how, K, n, seed, noise = case["gen"]
    lab = [i % K for i in range(n)]
    # a fixed pseudo-random permutation / corruption derived from the drawn integer (no RNG object involved)
    a, b = 1103515245, 12345
    state = seed % (2**31)
    pr = list(lab)
    for _ in range(noise):
        state = (a * state + b) % (2**31)
        i = state % n
        state = (a * state + b) % (2**31)
        pr[i] = state % K
    return dict(case, labels=lab, preds=pr)


def strategy(tier):
    @st.composite
    def mix(draw):
        r = draw(st.integers(0, 59))
        if r == 0:
            return draw(_big_measure_case())
        if r < 12:
            return draw(_norm_case())
        return draw(_measure_case())

    return mix()


def check_case(case):
    lib.setup()
    import numpy as np
    import opfython.math.general as g

    if case["t"] == "normalize":
        A = np.array(case["A"], dtype=float)
        before = A.copy()
        out = lib.libcall(g.normalize, A)
        require(np.array_equal(A, before), "normalize:input_unchanged", "normalize modified its argument")
        out = np.asarray(out)
        require(out.shape == A.shape, "normalize:shape", "%r vs %r" % (out.shape, A.shape))
        r, c = A.shape
        nonconst = 0
        for j in range(c):
            col = [Fraction(row[j]) for row in case["A"]]
            mean = sum(col) / r
            var = sum((v - mean) ** 2 for v in col) / r
            if var == 0:
                continue
            nonconst += 1
            sd = math.sqrt(float(var))
            for i in range(r):
                ref = float(col[i] - mean) / sd
                got = float(out[i][j])
                # conditioning: mean and deviations carry an absolute error of about eps*|mean|
                tol = (1e-9 + 16 * 2.220446049250313e-16 * abs(float(mean)) / sd) * (1 + abs(ref))
                require(math.isfinite(got) and abs(got - ref) <= tol, "normalize:zscore", lambda: "column %d row %d: got %r expected %r (A=%r)" % (j, i, got, ref, case["A"]))
        return Outcome.ok(nontrivial=nonconst >= 2, classes=["normalize", "nonconst_cols=%d" % min(nonconst, 3)])

    case = _expand(case)
    lab, pr = case["labels"], case["preds"]
    n = len(lab)
    K = max(lab) + 1
    if set(lab) != set(range(K)) or any(p < 0 or p >= K for p in pr):
        return Outcome.discard("outside_domain")
    dt = np.dtype(case.get("dtype", "int64"))
    La = np.array(lab, dtype=dt) if case["as_array"] else list(lab)
    Pa = np.array(pr, dtype=dt) if case["as_array"] else list(pr)

    counts = [sum(1 for v in lab if v == c) for c in range(K)]
    pair = [[0] * K for _ in range(K)]
    for a, b in zip(lab, pr):
        pair[a][b] += 1
    colsum = [sum(pair[a][c] for a in range(K)) for c in range(K)]
    FP = [colsum[c] - pair[c][c] for c in range(K)]
    FN = [counts[c] - pair[c][c] for c in range(K)]
    tot = Fraction(0)
    for c in range(K):
        if n - counts[c] > 0:
            tot += Fraction(FP[c], n - counts[c])
        if counts[c] > 0:
            tot += Fraction(FN[c], counts[c])
    ref_acc = 1 - tot / (2 * K)
    all_correct = lab == pr

    acc = float(lib.libcall(g.opf_accuracy, La, Pa))
    require(math.isfinite(acc) and abs(acc - float(ref_acc)) <= 1e-12, "opf_accuracy:definition", lambda: "got %r, definition gives %r (labels=%r preds=%r)" % (acc, float(ref_acc), lab, pr))
    require(-1e-12 <= acc <= 1 + 1e-12, "opf_accuracy:bounds", "acc=%r" % acc)
    require((acc == 1.0) == all_correct, "opf_accuracy:one_iff_all_correct", lambda: "acc=%r all_correct=%r (labels=%r preds=%r)" % (acc, all_correct, lab, pr))

    cm = np.asarray(lib.libcall(g.confusion_matrix, La, Pa))
    require(cm.shape == (K, K), "confusion_matrix:shape", "%r for K=%d" % (cm.shape, K))
    require(all(cm[a][b] == pair[a][b] for a in range(K) for b in range(K)), "confusion_matrix:pair_counts", lambda: "got %r expected %r" % (cm.tolist(), pair))
    require(cm.sum() == n, "confusion_matrix:sum", "sum %r != n %d" % (cm.sum(), n))

    pl = np.asarray(lib.libcall(g.opf_accuracy_per_label, La, Pa), dtype=float)
    require(pl.shape == (K,), "per_label:shape", "%r" % (pl.shape,))
    for c in range(K):
        rec = pair[c][c] / counts[c]
        require(abs(float(pl[c]) - rec) <= 1e-12, "per_label:recall", lambda: "class %d: got %r recall %r (labels=%r preds=%r)" % (c, float(pl[c]), rec, lab, pr))

    pu = float(lib.libcall(g.purity, La, Pa))
    ref_pu = Fraction(sum(max(pair[a][b] for a in range(K)) for b in range(K)), n)
    require(abs(pu - float(ref_pu)) <= 1e-12, "purity:definition", lambda: "got %r expected %r (labels=%r preds=%r)" % (pu, float(ref_pu), lab, pr))
    require(0 < pu <= 1 + 1e-12, "purity:bounds", "purity=%r" % pu)
    pure = all(sum(1 for a in range(K) if pair[a][b] > 0) <= 1 for b in range(K))
    require((pu == 1.0) == pure, "purity:one_iff_pure", lambda: "purity=%r pure=%r (labels=%r preds=%r)" % (pu, pure, lab, pr))

    nt = K >= 2 and len(set(counts)) > 1 and (not all_correct) and any(a == b for a, b in zip(lab, pr))
    cl = ["measure", "mode_" + case["mode"], "K=%d" % K if K <= 6 else ("K>6" if K <= 24 else "K>=257"), ("array_" + case.get("dtype", "int64")) if case["as_array"] else "list"]
    if any(sum(pair[a][c] for a in range(K)) == 0 for c in range(K)):
        cl.append("class_never_predicted")
    return Outcome.ok(nontrivial=nt, classes=cl)
