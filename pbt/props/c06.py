"""C06 -- each of the 47 identifiers computes its published closed form; registry == accepted set."""
from hypothesis import strategies as st

from ..common import gen, lib
from ..common import metrics as M
from ..common.outcome import Outcome, require

ID = "C06"
RULE = (
    "identifier x length 1..64 x two vectors from the identifier's C06 domain (DESIGN.md section 5; independent / one-coordinate / "
    "proportional / identical / 1-ulp pairs; a tenth of the cases use integer-typed arrays with integral values), resolved through DISTANCES[name] or Model(distance=name).distance_fn for the four model "
    "classes; oracle = closed form in 60-digit decimal arithmetic with tolerance 1e-9*|ref| + 64*eps*(n+8)*A. Plus acceptance cases: "
    "candidate strings (table names, registry keys, near-misses, random text) must be accepted by all four constructors iff they are in the registry, "
    "and the registry must equal the 47 table names. non-trivial: n != 4 (the only length the suite uses), x != y, reference != 0; "
    "distinct by hash of (name, path, vectors)"
)
ASSUMPTIONS = [
    "the closed-form table in pbt/common/metrics.py (DESIGN.md section 5) is the published definition; an error common to table and library is invisible",
    "strictly positive inputs (>= 1e-3) for ratio/log metrics, so the 1e-20 shift of avoid_zero_division is invisible (x + 1e-20 == x)",
]
BUDGET = {
    "quick": {"examples": 9600, "shards": 16, "min_nontrivial": 2000, "min_per_name": 40},
    "thorough": {"examples": 160000, "shards": 16, "min_nontrivial": 40000, "min_per_name": 1000, "max_wall": 3000},
}
SHARDED_STRATEGY = True
PATHS = ["registry", "sup", "semi", "knn", "unsup", "load"]


def _models():
    lib.setup()
    from opfython.models.knn_supervised import KNNSupervisedOPF
    from opfython.models.semi_supervised import SemiSupervisedOPF
    from opfython.models.supervised import SupervisedOPF
    from opfython.models.unsupervised import UnsupervisedOPF

    return {
        "sup": lambda n: SupervisedOPF(distance=n),
        "semi": lambda n: SemiSupervisedOPF(distance=n),
        "knn": lambda n: KNNSupervisedOPF(distance=n),
        "unsup": lambda n: UnsupervisedOPF(distance=n),
    }


def strategy(tier, shard=0, nshards=1):
    names = [n for i, n in enumerate(M.NAMES) if i % nshards == shard] or M.NAMES
    nmax = 64

    @st.composite
    def metric_case(draw):
        name = names[draw(st.integers(0, 10**6)) % len(names)]
        x, y, kind = draw(gen.vector_pair(M.c06_domain(name), nmax=nmax))
        path = draw(st.sampled_from(PATHS + ["registry"]))
        return {"t": "value", "name": name, "x": x, "y": y, "kind": kind, "path": path}

    @st.composite
    def int_case(draw):
        """integer-typed arrays (counts, pixel values): x is int64, y int64 or float64"""
        name = names[draw(st.integers(0, 10**6)) % len(names)]
        dom = M.c06_domain(name)
        n = draw(st.integers(1, 12))
        if dom in ("R", "RNZ"):
            e = st.integers(-20, 20)
        elif dom == "P":
            e = st.integers(1, 50)
        else:
            e = st.integers(0, 50)
        x = draw(st.lists(e, min_size=n, max_size=n))
        y = draw(st.lists(e, min_size=n, max_size=n))
        if dom == "RNZ":
            x[0] = x[0] or 1
            y[0] = y[0] or 2
        if dom == "PROB":
            return None
        yk = draw(st.sampled_from(["int64", "float64"]))
        if yk == "float64":
            y = [v + draw(st.sampled_from([0.0, 0.5, 0.25])) for v in y]
        return {"t": "value", "name": name, "x": [float(v) for v in x], "y": [float(v) for v in y], "kind": "int_typed", "path": "registry", "xdtype": "int64", "ydtype": yk}

    near = st.sampled_from(M.NAMES).flatmap(lambda n: st.sampled_from([n + "_distance", n.upper(), n[:-1], n + " ", "_" + n, n.replace("_", "-"), n.title()]))
    cand = st.one_of(st.sampled_from(M.NAMES), near, st.text(max_size=12), st.sampled_from(["", "euclid", "l2", "minkowski", "mahalanobis", "DISTANCES"]))
    accept_case = cand.map(lambda c: {"t": "accept", "cand": c})
    ints = int_case().filter(lambda c: c is not None)
    return st.one_of(metric_case(), metric_case(), metric_case(), metric_case(), metric_case(), metric_case(), metric_case(), metric_case(), ints, accept_case)


def check_case(case):
    lib.setup()
    import numpy as np
    import opfython.math.distance as dist
    import opfython.utils.exception as ex

    if case["t"] == "accept":
        cand = case["cand"]
        in_reg = cand in dist.DISTANCES
        require(set(dist.DISTANCES) == set(M.NAMES), "registry:47_names", lambda: "registry differs from the table: %r" % sorted(set(dist.DISTANCES) ^ set(M.NAMES)))
        for kind, mk in _models().items():
            ok, val = lib.libcall_expect(mk, ex.TypeError, cand)
            require(ok == in_reg, "accepted_iff_registered", "%r: in registry=%r, accepted by %s=%r" % (cand, in_reg, kind, ok))
            if ok:
                require(val.distance_fn is dist.DISTANCES[cand], "model_resolves_registry_fn", "%s(distance=%r).distance_fn is not DISTANCES[%r]" % (kind, cand, cand))
        if in_reg:
            # plugging a user-defined function into ONE model must not change what the identifier means elsewhere
            def _custom(a, b):
                return 0.0

            _custom.__name__ = cand + "_distance"
            orig = dist.DISTANCES[cand]
            mdl = lib.libcall(_models()["sup"], cand)
            mdl.distance_fn = _custom
            require(dist.DISTANCES[cand] is orig, "registry:unchanged_by_custom_function", "DISTANCES[%r] was replaced after assigning a custom distance_fn to one model" % cand)
            mdl2 = lib.libcall(_models()["knn"], distance=cand) if False else lib.libcall(_models()["unsup"], cand)
            require(mdl2.distance_fn is orig, "registry:unchanged_by_custom_function", "a later model resolves %r to another function" % cand)
        return Outcome.ok(nontrivial=(not in_reg and cand != ""), classes=["accept", "accept_in" if in_reg else "accept_out"])

    name, x, y, path = case["name"], case["x"], case["y"], case["path"]
    if path == "registry":
        require(name in dist.DISTANCES, "registry:has_name", "%r missing from DISTANCES" % name)
        fn = dist.DISTANCES[name]
    elif path == "load":
        # the identifier travels through a saved model file into a default-constructed model
        import os
        import tempfile

        mk = _models()["sup"]
        m0 = lib.libcall(mk, name)
        with tempfile.TemporaryDirectory(prefix="c06-") as tmp:
            f = os.path.join(tmp, "m.pkl")
            lib.libcall(m0.save, f)
            from opfython.models.supervised import SupervisedOPF

            m1 = lib.libcall(SupervisedOPF)
            lib.libcall(m1.load, f)
        require(m1.distance == name, "load:keeps_identifier", "loaded model reports distance %r, saved %r" % (m1.distance, name))
        fn = m1.distance_fn
    else:
        model = lib.libcall(_models()[path], name)
        fn = model.distance_fn
    xa, ya = np.array(x, dtype=np.dtype(case.get("xdtype", "float64"))), np.array(y, dtype=np.dtype(case.get("ydtype", "float64")))
    xb, yb = xa.tobytes(), ya.tobytes()
    val = lib.libcall(fn, xa, ya)
    val2 = lib.libcall(fn, xa, ya)  # the very same arrays again
    require(xa.tobytes() == xb and ya.tobytes() == yb, "arguments_unchanged:" + name, "evaluating %s modified its arguments" % name)
    require(np.float64(val).tobytes() == np.float64(val2).tobytes(), "repeatable:" + name, lambda: "%s returned %r, then %r for the same arrays" % (name, val, val2))
    ok, msg = M.compare(name, val, x, y)
    require(ok, "closed_form:" + name, lambda: "%s via %s, n=%d, x=%r y=%r" % (msg, path, len(x), x[:6], y[:6]))
    ref = M.reference(name, x, y)[0]
    nt = len(x) != 4 and x != y and ref != 0
    return Outcome.ok(nontrivial=nt, classes=["m:" + name, "path_" + path, "kind_" + case["kind"], "n=1" if len(x) == 1 else ("n=4" if len(x) == 4 else ("n<=8" if len(x) <= 8 else "n>8"))])


def starved(tier, classes):
    need = BUDGET[tier]["min_per_name"]
    low = [(n, classes.get("m:" + n, 0)) for n in M.NAMES if classes.get("m:" + n, 0) < need]
    if low:
        return "per-identifier minimum %d not reached: %r" % (need, low[:8])
    return None
