"""C14 -- KNN / unsupervised prediction follows the exhaustive k-nearest max-min rule."""
import math

from hypothesis import strategies as st

from ..common import knncase, models
from ..common.lib import libcall
from ..common.outcome import Outcome, require

ID = "C14"
RULE = (
    "fitted KNNSupervisedOPF / UnsupervisedOPF models (generators of C13: tied pre-computed matrices, generic / lattice / positive / duplicate feature data, drawn symmetric metric, max_k up to 5) "
    "x 1..8 queries (random points, copies of training samples, far points); every query is predicted twice, at a batch position below n_train and at a position >= n_train. "
    "Oracle (admissible_outputs): distances from the query to ALL training samples from outside (same callable, query first), k = best_k, the query's density from the k smallest distances with the "
    "stored constant and density range (either divisor k or k+1, either convention when the range is 0), admissible = outputs of neighbours maximising min(cost, density) over every valid k-set when "
    "the k-th distance ties, near-ties of computed values admissible. The returned label (and cluster) must be admissible at both positions. "
    "non-trivial: the admissible set excludes some output that occurs among the training samples and the k nearest carry >= 2 different outputs or costs; distinct by case hash"
)
ASSUMPTIONS = ["cost, labels, constant, min/max density are read from the fitted model (C12/C13/C16 decide them)", "the statement does not fix the divisor of the query's density: k and k+1 are both accepted"]
BUDGET = {
    "quick": {"examples": 8000, "shards": 8, "min_nontrivial": 800},
    "thorough": {"examples": 160000, "shards": 16, "min_nontrivial": 5000, "max_wall": 3000},
}


def strategy(tier):
    n = 12 if tier == "quick" else 24
    sym = knncase.knn_case(nmax=n, nq=(1, 8), kmax_force=True)
    # "all metrics": also the asymmetric divergences (the query is the first argument of the metric in predict)
    asym = knncase.knn_case(nmax=n, nq=(1, 8), kmax_force=True, modes=("feat",), metrics=["neyman", "pearson", "kullback_leibler", "k_divergence"])
    # ... and the signed ones on non-normalised positive data (KL, K-divergence, statistic, bhattacharyya return negative values there)
    signed = knncase.knn_case(nmax=n, nq=(1, 8), kmax_force=True, modes=("feat",), metrics=["kullback_leibler", "k_divergence", "statistic", "bhattacharyya"], point_kinds=["positive"])
    # integer-typed training matrices with real-valued queries (dtype handling inside predict)
    ints = knncase.knn_case(nmax=n, nq=(2, 8), kmax_force=True, modes=("feat",), metrics=["euclidean", "manhattan", "squared_euclidean", "chebyshev", "log_squared_euclidean"], point_kinds=["lattice"], force_int=True)
    return st.one_of(sym, asym, signed, ints)


def check_predictions(r, case, preds, clusters, tag):
    s = r.state
    nt = case["nt"]
    k = s["sg_best_k"]
    costs = s["cost"]
    if case["model"] == "unsup":
        outs = [(s["predicted_label"][t], s["cluster_label"][t]) for t in range(nt)]
    else:
        outs = [s["predicted_label"][t] for t in range(nt)]
    ntc = 0
    require(s["sg_constant"] > 0, "model:positive_density_constant", "stored constant %r" % s["sg_constant"])
    for q in range(case["nq"]):
        got = (preds[q], clusters[q]) if case["model"] == "unsup" else preds[q]
        adm, info = knncase.admissible_outputs(r.DQ[q], costs, outs, k, s["sg_constant"], s["sg_min_density"], s["sg_max_density"])
        if adm is None or not all(map(math.isfinite, (s["sg_min_density"], s["sg_max_density"]))):
            continue  # non-finite density (kernel overflow on strongly negative values of a signed "metric"): not decided
        require(got in adm, "predict:k_nearest_max_min", lambda: "query %d (%s): returned %r, admissible %r; k=%d d=%r costs=%r outputs=%r constant=%r range=(%r,%r) query densities %r" % (
            q, tag, got, sorted(adm, key=str), k, r.DQ[q], costs, outs, s["sg_constant"], s["sg_min_density"], s["sg_max_density"], info["densities"]))
        kn = info["k_nearest"]
        if len(set(outs) - adm) >= 1 and (len({outs[t] for t in kn}) >= 2 or len({costs[t] for t in kn}) >= 2):
            ntc += 1
    return ntc


def check_case(case):
    np = models.np()
    r = knncase.run(case, predict=True, need_symmetric=False, allow_negative=True)
    if isinstance(r, str):
        return Outcome.discard(r)
    nt, nq = case["nt"], case["nq"]
    cl = ["model_" + case["model"], "mode_" + case["mode"], "best_k=%d" % r.state["sg_best_k"]]
    if case["mode"] == "feat" and case["metric"] in ("neyman", "pearson", "kullback_leibler", "k_divergence"):
        cl.append("asymmetric_metric")
    clusters = r.clusters or [None] * nq
    ntc = check_predictions(r, case, r.preds, clusters, "batch positions 0..%d" % (nq - 1))
    # the same queries again, shifted to batch positions >= n_train by prepending n_train filler rows (copies of query 0)
    pad = nt
    Xp = np.concatenate([np.repeat(r.Xq[:1], pad, axis=0), r.Xq], axis=0)
    Ip = None if r.I_q is None else np.concatenate([np.repeat(r.I_q[:1], pad), r.I_q])
    out = libcall(r.model.predict, Xp, Ip)
    if case["model"] == "unsup":
        p2, c2 = [int(v) for v in out[0]][pad:], [int(v) for v in out[1]][pad:]
    else:
        p2, c2 = [int(v) for v in out][pad:], [None] * nq
    check_predictions(r, case, p2, c2, "batch positions %d.." % pad)
    cl.append("positions_below_and_above_n_train")
    if case.get("prelude"):
        # the same case on a model object WITHOUT the earlier history: the stored constant / density range that prediction uses are
        # those of the last fit, so both objects must predict identically
        twin = knncase.run(dict(case, prelude=[]), predict=True, need_symmetric=False, allow_negative=True)
        if not isinstance(twin, str):
            require((r.preds, r.clusters) == (twin.preds, twin.clusters), "predict:uses_the_last_fits_density_model", lambda: "after the history %r the model predicts %r / %r, a fresh model fitted on the same data predicts %r / %r" % (case["prelude"], r.preds, r.clusters, twin.preds, twin.clusters))
        cl.append("with_history")
    return Outcome.ok(nontrivial=ntc > 0, classes=cl)
