"""C01 -- supervised training yields an optimum-path forest under the max-arc cost."""
from hypothesis import strategies as st

from ..common import oracles, supcase
from ..common.outcome import Outcome, require

ID = "C01"
RULE = (
    "SupervisedOPF.fit on (a) pre-computed symmetric weight matrices with 1-4 distinct levels (heavy ties, zero weights), tie-free and float matrices, "
    "(b) feature data with a drawn symmetric non-negative metric in its domain (matrix evaluated from outside, premise verified), "
    "(c) bounded-exhaustive: every symmetric matrix over levels {1,2,3} on 3 and 4 nodes (quick) / + 5 nodes over {1,2} and 4 nodes over {0,1,2,3} (thorough) x every labeling with 2..3 classes present. "
    "Oracle: prototypes read from the model; Bellman-Ford minimax fix point must equal every node cost exactly; predecessor links acyclic, end in a prototype, "
    "cost(child)=max(cost(parent),d), label = root prototype's true label; prototypes cost 0 / no predecessor / own label; conquest order a permutation in non-decreasing cost. "
    "non-trivial: some optimum path has >= 2 arcs, or two arcs at one node tie; distinct by case hash"
)
ASSUMPTIONS = ["prototype *selection* is C02's subject; here the flagged prototypes are taken as given", ">= 2 classes, finite non-negative symmetric weights (premise of the statement)"]
BUDGET = {
    "quick": {"examples": 9600, "shards": 16, "min_nontrivial": 500},
    "thorough": {"examples": 256000, "shards": 16, "min_nontrivial": 10000, "max_wall": 3000},
}


def strategy(tier):
    nmax = 10 if tier == "quick" else 30
    small = supcase.sup_case(nmax=nmax, kinds=("sup",))
    # a few large training sets (heaps several levels deep, long optimum paths)
    big = supcase.sup_case(nmax=80, nmin=40, kinds=("sup",), modes=("pre",), wmode="tiefree")

    @st.composite
    def mix(draw):
        # (st.one_of collapses repeated alternatives, hence an explicit weight)
        return draw(big) if draw(st.integers(0, 39)) == 0 else draw(small)

    return mix()


def enumerate_cases(tier):
    yield from supcase.enumerate_pre_cases(3, (1, 2, 3))
    yield from supcase.enumerate_pre_cases(4, (1, 2, 3))
    if tier == "thorough":
        yield from supcase.enumerate_pre_cases(5, (1, 2), kmax=3)
        yield from supcase.enumerate_pre_cases(4, (0, 1, 2, 3), kmax=2)


def check_forest(r, case, n_labeled=None):
    """the C01 oracle on a Run (also used by C15 on the union graph)"""
    s = r.state
    n = s["n_nodes"]
    W = r.W
    require(n == len(W), "all_samples_are_nodes", "n_nodes %d != %d" % (n, len(W)))
    protos = [i for i in range(n) if s["status"][i] == 1]
    require(len(protos) >= 1, "has_prototype", "no prototype flagged")
    true_label = list(case["Y"]) + [None] * (n - len(case["Y"]))
    for p in protos:
        require(s["cost"][p] == 0, "prototype:cost0", "prototype %d has cost %r" % (p, s["cost"][p]))
        require(s["pred"][p] == -1, "prototype:no_pred", "prototype %d has predecessor %r" % (p, s["pred"][p]))
        require(true_label[p] is not None and s["predicted_label"][p] == true_label[p], "prototype:own_label", "prototype %d: assigned %r true %r" % (p, s["predicted_label"][p], true_label[p]))
    ref = oracles.minimax_costs(W, protos)
    for i in range(n):
        require(s["cost"][i] == ref[i], "cost:optimum", lambda: "node %d: cost %r, optimum max-arc path cost %r (prototypes %r, W=%r, Y=%r)" % (i, s["cost"][i], ref[i], protos, W, case["Y"]))
    errs = oracles.forest_errors(s["pred"], s["cost"], true_label, s["predicted_label"], W, protos)
    if errs:
        require(False, errs[0][0], errs[0][1] + " (W=%r Y=%r)" % (W, case["Y"]))
    order = s["idx_nodes"]
    require(sorted(order) == list(range(n)), "order:permutation", "conquest order %r is not a permutation of 0..%d" % (order, n - 1))
    oc = [s["cost"][i] for i in order]
    require(all(oc[i] <= oc[i + 1] for i in range(n - 1)), "order:non_decreasing", "costs along the conquest order: %r" % oc)
    require(s["trained"] is True, "trained_flag", "subgraph.trained is %r" % s["trained"])
    # classes
    depth2 = False
    for i in range(n):
        p = s["pred"][i]
        if p != -1 and s["pred"][p] != -1:
            depth2 = True
    tie = any(len(set(W[i][j] for j in range(n) if j != i)) < n - 1 for i in range(n)) if n > 2 else False
    return depth2, tie, protos


def check_case(case):
    r = supcase.run(case, predict=False)
    if isinstance(r, str):
        return Outcome.discard(r)
    depth2, tie, protos = check_forest(r, case)
    cl = ["mode_" + case["mode"], "w_" + case.get("wmode", case.get("metric", "?")) if case["mode"] == "pre" else "feat"]
    if case["mode"] == "feat":
        cl.append("m:" + case["metric"])
    if depth2:
        cl.append("path>=2arcs")
    if tie:
        cl.append("ties")
    cl.append("n<=6" if case["nt"] <= 6 else ("n>6" if case["nt"] < 40 else "n>=40"))
    return Outcome.ok(nontrivial=depth2 or tie, classes=cl)
