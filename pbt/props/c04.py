"""C04 -- training samples receive their own labels (zero resubstitution error)."""
from hypothesis import strategies as st

from ..common import gen, knncase, models, supcase
from ..common import metrics as M
from ..common.lib import libcall
from ..common.outcome import Outcome, require

ID = "C04"
RULE = (
    "supervised: feature data with many-digit float coordinates in the domain of each of the 41 metrics the table marks symmetric + non-negative + zero self-distance, and tie-free pre-computed matrices; "
    "the premise is verified on the matrix evaluated from outside (exactly symmetric, all off-diagonal entries distinct and larger than every diagonal entry) and cases failing it are discarded and counted. "
    "Oracle: after fit every node's assigned label equals its true label, and predict(X_train) == Y_train exactly. "
    "KNN-supervised: ANY data (generic, lattice, duplicates - identical points with different labels included), any max_k <= n_train-1, validation set covering all classes, pre-computed tied matrices: "
    "every node's assigned label equals its true label. non-trivial: some sample's nearest neighbour carries a different label (supervised) / max_k >= 2 or two samples share a density (KNN); distinct by case hash"
)
ASSUMPTIONS = ["metrics eligible for the supervised clause: the 41 rows of the table that are symmetric dissimilarities (gaussian, statistic, KL, K-divergence, Neyman, Pearson are not)"]
BUDGET = {
    "quick": {"examples": 12800, "shards": 16, "min_nontrivial": 1000, "min_per_name": 5},
    "thorough": {"examples": 160000, "shards": 16, "min_nontrivial": 6000, "min_per_name": 40, "max_wall": 3000},
}
ELIGIBLE = M.MODEL_METRICS
assert len(ELIGIBLE) == 41


@st.composite
def _sup_feat(draw, nmax):
    name = ELIGIBLE[draw(st.integers(0, 10**6)) % len(ELIGIBLE)]
    dom = M.c08_domain(name)
    nt = draw(st.integers(2, nmax))
    dim = draw(st.integers(1, 4)) if name != "hamming" else draw(st.integers(3, 6))
    # many-digit coordinates; Hypothesis likes repeating list elements, so each entry gets a position-dependent
    # relative perturbation: equal draws still give distinct coordinates (ties are then rare, not impossible)
    raw = draw(st.lists(st.lists(st.tuples(st.integers(1, 200000), st.booleans()), min_size=dim, max_size=dim), min_size=nt, max_size=nt))
    X = []
    for i, row in enumerate(raw):
        p = []
        for j, (k, neg) in enumerate(row):
            v = k / 200.0 * (1.0 + (17 * i + 31 * j + 1) * 2.0 ** -22)
            p.append(-v if (neg and dom == "R") else v)
        X.append(p)
    if name == "hamming":
        X = draw(st.lists(st.lists(st.integers(0, 6).map(float), min_size=dim, max_size=dim), min_size=nt, max_size=nt))
    if dom == "PROB":
        X = [[v / sum(p) for v in p] for p in X]
    Y = draw(gen.labels(nt, 2, 4))
    return {"t": "sup", "model": "sup", "mode": "feat", "nt": nt, "nu": 0, "nq": 0, "Y": Y, "X": X, "metric": name}


@st.composite
def _after_learn(draw, nmax):
    base = draw(_sup_feat(nmax))
    if base["metric"] == "hamming" or base["nt"] < 4:
        base["metric"] = "euclidean"
    K = max(base["Y"]) + 1
    nv = draw(st.integers(K, K + 4))
    dim = len(base["X"][0])
    Xv = draw(st.lists(st.lists(st.integers(1, 200000).map(lambda k: k / 211.0), min_size=dim, max_size=dim), min_size=nv, max_size=nv))
    base.update({"t": "sup_learn", "Xv": Xv, "Yv": draw(gen.labels(nv, K, K)), "n_iter": draw(st.integers(2, 5)), "seed": draw(st.integers(0, 2**31 - 1))})
    return base


def strategy(tier):
    nmax = 9 if tier == "quick" else 20
    sup_pre = supcase.sup_case(nmax=nmax, kinds=("sup",), modes=("pre",), wmode="tiefree").map(lambda c: dict(c, t="sup"))
    knn = knncase.knn_case(nmax=nmax, kinds=("knn",), kmax_force=True).map(lambda c: dict(c, t="knn"))
    # a few large tie-free training sets (deep heaps in Prim and in the competition, long conquest orders in predict)
    big = supcase.sup_case(nmax=80, nmin=40, kinds=("sup",), modes=("pre",), wmode="tiefree").map(lambda c: dict(c, t="sup"))

    @st.composite
    def mix(draw):
        r_ = draw(st.integers(0, 39))
        if r_ == 0:
            return draw(big)
        return draw(st.one_of(_sup_feat(nmax), _sup_feat(nmax), sup_pre, knn, _after_learn(nmax)))

    return mix()


def check_learned(case):
    """the classifier that learn() leaves in the object has zero resubstitution error on ITS training set (tie-free premise verified)"""
    np = models.np()
    import math

    name = case["metric"]
    Xt = np.array(case["X"], dtype=float)
    Yt = np.array(case["Y"], dtype=int)
    Xv = np.array(case["Xv"], dtype=float)
    Yv = np.array(case["Yv"], dtype=int)
    if M.c08_domain(name) == "PROB":
        Xv = Xv / Xv.sum(axis=1, keepdims=True)
    if set(case["Yv"]) != set(range(max(case["Y"]) + 1)):
        return Outcome.discard("validation_does_not_cover_classes")
    m = libcall(models.classes()["sup"], distance=name)
    np.random.seed(case["seed"] % (2**32))
    libcall(m.learn, Xt, Yt, Xv, Yv, case["n_iter"])
    Xn = [[float(v) for v in nd.features] for nd in m.subgraph.nodes]
    Yn = [int(nd.label) for nd in m.subgraph.nodes]
    if len(set(Yn)) < 2:
        return Outcome.discard("single_class_after_swaps")
    W = models.eval_matrix(name, Xn)
    n = len(W)
    off = [W[i][j] for i in range(n) for j in range(i + 1, n)]
    fdiag = [W[i][i] for i in range(n) if math.isfinite(W[i][i])]
    if (not all(math.isfinite(v) and v >= 0 for v in off) or any(W[i][j] != W[j][i] for i in range(n) for j in range(n))
            or len(set(off)) != len(off) or (off and fdiag and min(off) <= max(abs(v) for v in fdiag))):
        return Outcome.discard("premise:not_tie_free_after_learn")
    preds = [int(v) for v in libcall(m.predict, np.array(Xn, dtype=float))]
    require(preds == Yn, "supervised:predict_training_set_after_learn", lambda: "after learn() predict(training set held by the object)=%r, labels=%r (%s)" % (preds, Yn, name))
    return Outcome.ok(nontrivial=True, classes=["sup_learn", "m:" + name])


def check_case(case):
    np = models.np()
    if case["t"] == "sup_learn":
        return check_learned(case)
    if case["t"] == "sup":
        # the diagonal is NOT part of the discarding premise: a NaN self-distance of an eligible metric on in-domain data
        # is the library's defect (the table claims zero self-distance) and must surface through predict(X_train)
        r = supcase.run(case, predict=False, check_diag=False)
        if isinstance(r, str):
            return Outcome.discard(r)
        W = r.W
        n = len(W)
        diag = [W[i][i] for i in range(n)]
        off = [W[i][j] for i in range(n) for j in range(i + 1, n)]
        if len(set(off)) != len(off):
            return Outcome.discard("premise:ties", classes=["m:" + case.get("metric", "pre") + ":discard"])
        import math

        fdiag = [v for v in diag if math.isfinite(v)]
        # self-distances are zero only up to rounding (cosine: -2e-16): every other distance must exceed their magnitude
        if off and fdiag and min(off) <= max(abs(v) for v in fdiag):
            return Outcome.discard("premise:self_distance_not_below_all_others")
        s = r.state
        for i in range(n):
            require(s["predicted_label"][i] == case["Y"][i], "supervised:own_label_after_fit", lambda: "node %d assigned %r, true %r (%s; W=%r Y=%r)" % (i, s["predicted_label"][i], case["Y"][i], case.get("metric", "pre"), W, case["Y"]))
        # helper calls between fit and predict must not disturb the classifier (raw, then min-max normalised distance matrix)
        libcall(r.model.get_distances)
        libcall(r.model.get_distances, True)
        if case["mode"] == "feat":
            Xtr = np.array(case["X"], dtype=float)
            preds = [int(v) for v in libcall(r.model.predict, Xtr)]
        else:
            preds = [int(v) for v in libcall(r.model.predict, models.index_features(n), r.I_tr.copy())]
        require(preds == list(case["Y"]), "supervised:predict_training_set", lambda: "predict(X_train)=%r, Y_train=%r (%s; W=%r costs=%r)" % (preds, case["Y"], case.get("metric", "pre"), W, s["cost"]))
        nn_other = any(case["Y"][min((j for j in range(n) if j != i), key=lambda j: W[i][j])] != case["Y"][i] for i in range(n))
        cl = ["sup", "m:" + case["metric"] if case["mode"] == "feat" else "sup_pre"]
        return Outcome.ok(nontrivial=nn_other, classes=cl)
    r = knncase.run(case, predict=False)
    if isinstance(r, str):
        return Outcome.discard(r)
    s = r.state
    for i in range(case["nt"]):
        require(s["predicted_label"][i] == case["Y"][i], "knn:own_label_after_fit", lambda: "node %d assigned %r, true %r (Y=%r best_k=%r D=%r)" % (i, s["predicted_label"][i], case["Y"][i], case["Y"], s["sg_best_k"], r.D))
    dens = s["density"]
    dup_diff = any(r.D[i][j] == 0 and case["Y"][i] != case["Y"][j] for i in range(case["nt"]) for j in range(i))
    cl = ["knn", "knn_" + case["mode"]]
    if dup_diff:
        cl.append("identical_points_different_labels")
    return Outcome.ok(nontrivial=case["max_k"] >= 2 or len(set(dens)) < len(dens), classes=cl)


def starved(tier, classes):
    need = BUDGET[tier]["min_per_name"]
    low = [(n, classes.get("m:" + n, 0)) for n in ELIGIBLE if classes.get("m:" + n, 0) < need and n != "hamming"]
    if low:
        return "per-metric minimum %d not reached: %r" % (need, low[:8])
    return None
