"""C10 -- pre-computed distances are equivalent to computing the metric on the fly."""
import math
import os
import tempfile

from hypothesis import strategies as st

from ..common import gen, lib, models
from ..common import metrics as M
from ..common.lib import libcall
from ..common.outcome import Outcome, require

ID = "C10"
RULE = (
    "a full data set (<= 14 rows quick / 30 thorough, 1..4 dims, float64 or float32) in the drawn metric's domain (all 47 identifiers, asymmetric and signed ones included); pre_compute_distance(data, file) with "
    "extension .txt or .csv; a drawn split into train / test (/ unlabeled) index arrays in arbitrary order (semi-supervised: unlabeled rows directly follow n_labeled in the file, the only layout "
    "the API expresses); models: supervised, semi-supervised, unsupervised (drawn k range). Oracle: model A = Model(distance, pre_computed_distance=file) driven by index arrays, model B = Model(distance) on the features: "
    "every node field, conquest order, best_k, n_clusters, predictions and clusters must be equal exactly (the path may have been written before with other data, and a second file with the same stem, the other extension and other data may be written after it); get_distances() of B == metric on every ordered pair (min-max rescaled when normalize=True). "
    "non-trivial: the train index array is not 0..n-1 in order and the matrix has >= 3 distinct off-diagonal values; distinct by case hash"
)
ASSUMPTIONS = ["np.savetxt's default 18-decimal format round-trips float64 exactly, so exact equality is demanded"]
BUDGET = {
    "quick": {"examples": 3200, "shards": 16, "min_nontrivial": 200},
    "thorough": {"examples": 64000, "shards": 16, "min_nontrivial": 3000, "max_wall": 3000},
}


@st.composite
def _case(draw, nall_max):
    name = draw(st.sampled_from(M.NAMES))
    kind = draw(st.sampled_from(gen.metric_point_kind(name)))
    model = draw(st.sampled_from(["sup", "semi", "unsup"]))
    ext = draw(st.sampled_from(["txt", "csv"]))
    dim = draw(st.integers(1, 4))
    nall = draw(st.integers(5, nall_max))
    data = draw(gen.points(nall, dim, kind))
    case = {"metric": name, "pkind": kind, "model": model, "ext": ext, "data": data, "dtype": draw(st.sampled_from(["float64", "float64", "float64", "float32"]))}
    rows = list(range(nall))
    if model == "semi":
        nl = draw(st.integers(2, max(2, (nall - 1) // 2)))
        nu = draw(st.integers(0, max(0, min(4, nall - nl - 1))))
        unl = list(range(nl, nl + nu))
        others = [r for r in rows if r not in unl]
        perm = draw(st.permutations(others))
        train = list(perm[:nl])
        rest = list(perm[nl:])
        case["I_unl"] = unl
    else:
        perm = draw(st.permutations(rows))
        nt = draw(st.integers(3, max(3, nall - 1)))
        train = list(perm[:nt])
        rest = list(perm[nt:])
    ntest = draw(st.integers(0, len(rest)))
    test = rest[:ntest]
    if draw(st.booleans()) and train:
        test = test + [train[draw(st.integers(0, len(train) - 1))]]  # a training sample among the test samples
    case["I_train"] = train
    case["I_test"] = test
    case["Y"] = draw(gen.labels(len(train), 2, 3))
    if model == "unsup":
        mk = draw(st.integers(1, min(4, len(train) - 1)))
        case["max_k"] = mk
        case["min_k"] = draw(st.integers(1, mk))
    return case


def strategy(tier):
    return _case(14 if tier == "quick" else 30)


def _build(cls, case, **kw):
    if case["model"] == "unsup":
        return libcall(cls, min_k=case["min_k"], max_k=case["max_k"], distance=case["metric"], **kw)
    return libcall(cls, distance=case["metric"], **kw)


def check_case(case):
    lib.setup()
    np = models.np()
    import opfython.math.general as g

    name = case["metric"]
    dt = np.float32 if case.get("dtype") == "float32" else np.float64
    data = np.array(case["data"], dtype=dt)
    fn = models.dist_fn(name)
    # the metric evaluated from outside on the caller's rows, in the caller's dtype
    ref = [[float(libcall(fn, data[i].copy(), data[j].copy())) for j in range(len(data))] for i in range(len(data))]
    if not all(math.isfinite(v) for row in ref for v in row):
        return Outcome.discard("non_finite_metric_value")
    if any(0 < abs(v) < 1e-300 for row in ref for v in row):
        return Outcome.discard("subnormal_metric_value")
    It, Iq = case["I_train"], case["I_test"]
    cls = models.classes()[case["model"]]
    Y = np.array(case["Y"], dtype=int)
    with tempfile.TemporaryDirectory(prefix="c10-") as tmp:
        path = os.path.join(tmp, "dist." + case["ext"])
        if len(data) >= 2 and case["I_train"][0] % 2 == 0:
            # the path is written twice (first with other data of the same size): the file must describe the LAST call
            libcall(g.pre_compute_distance, data[::-1].copy() * 2.0, path, name)
        libcall(g.pre_compute_distance, data.copy(), path, name)
        if len(data) >= 2 and case["I_train"][0] % 3 == 0:
            # a second distance file with the same stem but the other extension and other data, written afterwards, is a different file
            other = os.path.join(tmp, "dist." + ("csv" if case["ext"] == "txt" else "txt"))
            libcall(g.pre_compute_distance, data[::-1].copy() * 2.0, other, name)
        A = _build(cls, case, pre_computed_distance=path)
        C = _build(cls, case, pre_computed_distance=path)
    require(A.pre_distances is not None and np.asarray(A.pre_distances).shape == (len(data), len(data)), "file:shape", "loaded matrix shape %r for %d samples" % (getattr(A.pre_distances, "shape", None), len(data)))
    loaded = np.asarray(A.pre_distances)
    for i in range(len(data)):
        for j in range(len(data)):
            require(float(loaded[i][j]) == ref[i][j], "file:exact_round_trip", lambda: "entry (%d,%d): file gives %r, metric gives %r" % (i, j, float(loaded[i][j]), ref[i][j]))
    B = _build(cls, case)
    Xt = data[It]
    Xq = data[Iq] if Iq else np.zeros((0, data.shape[1]))
    It_a, Iq_a = np.array(It, dtype=int), np.array(Iq, dtype=int)
    if case["model"] == "semi":
        Xu = data[case["I_unl"]] if case["I_unl"] else np.zeros((0, data.shape[1]))
        libcall(A.fit, Xt.copy(), Y.copy(), Xu.copy(), It_a)
        libcall(B.fit, Xt.copy(), Y.copy(), Xu.copy())
    elif case["model"] == "unsup":
        libcall(A.fit, Xt.copy(), Y.copy(), It_a)
        libcall(B.fit, Xt.copy(), Y.copy())
    else:
        libcall(A.fit, Xt.copy(), Y.copy(), It_a)
        libcall(B.fit, Xt.copy(), Y.copy())
    sa, sb = models.node_state(A), models.node_state(B)
    for f in sa:
        if f in ("idx",):
            continue
        require(repr(sa[f]) == repr(sb[f]), "same_forest", lambda: "%s/%s/.%s: field %s: pre-computed %r vs on-the-fly %r (I_train=%r)" % (case["model"], name, case["ext"], f, sa[f], sb[f], It))
    require(sa["idx"][: len(It)] == It, "node_idx_is_caller_index", "node idx %r, I_train %r" % (sa["idx"], It))
    if Iq:
        pa = libcall(A.predict, Xq.copy(), Iq_a)
        pb = libcall(B.predict, Xq.copy())
        ta = [list(map(int, v)) for v in pa] if isinstance(pa, tuple) else [int(v) for v in pa]
        tb = [list(map(int, v)) for v in pb] if isinstance(pb, tuple) else [int(v) for v in pb]
        require(ta == tb, "same_predictions", lambda: "%s/%s: pre-computed %r vs on-the-fly %r (I_train=%r I_test=%r)" % (case["model"], name, ta, tb, It, Iq))
    # a model built with the file whose use is switched off through the public attribute computes the metric on the fly again
    if case["model"] != "semi":
        C.pre_computed_distance = False
        libcall(C.fit, Xt.copy(), Y.copy())
        sc = models.node_state(C)
        for f in sc:
            require(repr(sc[f]) == repr(sb[f]), "switched_off_file_equals_on_the_fly", lambda: "%s/%s: field %s: model with the file switched off %r vs on-the-fly %r" % (case["model"], name, f, sc[f], sb[f]))
        if Iq:
            pc = libcall(C.predict, Xq.copy())
            tc = [list(map(int, v)) for v in pc] if isinstance(pc, tuple) else [int(v) for v in pc]
            require(tc == tb, "switched_off_file_equals_on_the_fly", "predictions differ: %r vs %r" % (tc, tb))
    # distance matrix a fitted model reports for its own training samples
    G = np.asarray(libcall(B.get_distances))
    nodes = sb["n_nodes"]
    rows = It + (case.get("I_unl") or []) if case["model"] == "semi" else It
    require(G.shape == (nodes, nodes), "get_distances:shape", "%r" % (G.shape,))
    for i in range(nodes):
        for j in range(nodes):
            require(float(G[i][j]) == ref[rows[i]][rows[j]], "get_distances:every_ordered_pair", lambda: "entry (%d,%d) %r, metric %r" % (i, j, float(G[i][j]), ref[rows[i]][rows[j]]))
    lo, hi = float(G.min()), float(G.max())
    if hi > lo:
        N = np.asarray(libcall(B.get_distances, normalize=True))
        for i in range(nodes):
            for j in range(nodes):
                e = (float(G[i][j]) - lo) / (hi - lo)
                require(abs(float(N[i][j]) - e) <= 1e-12 * (1 + abs(e)), "get_distances:min_max_normalised", lambda: "entry (%d,%d) %r expected %r" % (i, j, float(N[i][j]), e))
    # the pre-computed model reports the same matrix (it holds the features too), and reporting must not disturb the loaded file matrix
    GA = np.asarray(libcall(A.get_distances))
    require(GA.shape == G.shape and all(float(GA[i][j]) == float(G[i][j]) for i in range(nodes) for j in range(nodes)), "get_distances:pre_computed_model_agrees", "get_distances() of the pre-computed model differs from the on-the-fly model's")
    if hi > lo:
        NA = np.asarray(libcall(A.get_distances, normalize=True))
        require(all(abs(float(NA[i][j]) - (float(G[i][j]) - lo) / (hi - lo)) <= 1e-12 * (1 + abs(float(NA[i][j]))) for i in range(nodes) for j in range(nodes)), "get_distances:pre_computed_model_agrees", "normalised matrix of the pre-computed model differs")
        GA2 = np.asarray(libcall(A.get_distances))
        require(all(float(GA2[i][j]) == float(G[i][j]) for i in range(nodes) for j in range(nodes)), "get_distances:repeatable", "get_distances() changed after a normalised call")
    la = np.asarray(A.pre_distances)
    require(la.shape == loaded.shape and all(float(la[i][j]) == ref[i][j] for i in range(len(data)) for j in range(len(data))), "get_distances:leaves_loaded_matrix_intact", "the loaded pre-computed matrix was modified by get_distances()")
    # ... and a model that is re-fitted on another subset of the same size reports the NEW training set's matrix
    if len(It) >= 2 and case["model"] in ("sup", "unsup"):
        It2 = It[1:] + It[:1]
        if case["model"] == "unsup":
            libcall(B.fit, data[It2].copy(), Y.copy())
        else:
            libcall(B.fit, data[It2].copy(), Y.copy())
        G2 = np.asarray(libcall(B.get_distances))
        for i in range(len(It2)):
            for j in range(len(It2)):
                require(float(G2[i][j]) == ref[It2[i]][It2[j]], "get_distances:after_refit", lambda: "after re-fitting on rows %r entry (%d,%d) is %r, metric gives %r" % (It2, i, j, float(G2[i][j]), ref[It2[i]][It2[j]]))
    offd = {ref[i][j] for i in It for j in It if i != j}
    nontriv = It != list(range(len(It))) and len(offd) >= 3
    cl = ["model_" + case["model"], "ext_" + case["ext"], "m:" + name, "dtype_" + case.get("dtype", "float64")]
    if not M.symmetric(name):
        cl.append("asym")
    return Outcome.ok(nontrivial=nontriv, classes=cl)
