"""C07 -- no call modifies caller data; results depend only on argument values."""
import os
import tempfile

from hypothesis import strategies as st

from ..common import gen, lib, models
from ..common import metrics as M
from ..common.lib import libcall
from ..common.outcome import Outcome, require

ID = "C07"
RULE = (
    "call HISTORIES (2..14 operations) over a pool of caller-owned arrays: 2..5 vectors (non-negative with exact zeros, or signed for the all-reals metrics), a data matrix X with labels Y, "
    "a validation set and a query matrix (all containing exact zeros). Operations: evaluate(any of the 47 identifiers, vector i, vector j; i == j passes the SAME object twice), "
    "rewrite(vector i in place with new values - the caller re-uses a buffer), fit(any of the four models, drawn metric), predict(last fitted model), pre_compute_distance(X, temp file), get_distances(last model), fit_twice_compare. "
    "Oracle after EVERY operation: tobytes()/dtype/shape of every pooled array equal their pristine copies; the first value returned for (identifier, bytes(x), bytes(y)) is memoised and every later "
    "evaluation must be bit-identical, and every evaluation must equal the closed form of the current contents of its arguments (section 5 tolerance); two fresh models fitted on equal data agree on every node field, the conquest order and predictions. "
    "non-trivial: an eps-shifted metric is evaluated >= 2 times on an array containing an exact zero, or a fit/predict lies between two evaluations of one key; distinct by case hash"
)
ASSUMPTIONS = ["histories are generated as data (operation lists interpreted by check_case); no operation has a state-dependent precondition except 'a model was fitted', which the interpreter handles by fitting one"]
BUDGET = {
    "quick": {"examples": 4800, "shards": 16, "min_nontrivial": 300},
    "thorough": {"examples": 128000, "shards": 16, "min_nontrivial": 5000, "max_wall": 3000},
}
R_METRICS = sorted(n for n in M.NAMES if M.c08_domain(n) == "R")
FIT_METRICS = sorted(n for n in M.NAMES if M.symmetric(n) and M.dissimilarity(n))


def _vec(n, signed):
    mag = st.one_of(st.integers(1, 16).map(lambda k: k / 4.0), st.floats(1e-3, 1e3, allow_nan=False))
    e = st.one_of(st.just(0.0), mag, mag) if not signed else st.one_of(st.just(0.0), mag, mag.map(lambda v: -v))
    return st.lists(e, min_size=n, max_size=n).map(lambda v: v if any(abs(a) >= 1e-3 for a in v) else [1.0] + v[1:])


@st.composite
def _case(draw):
    dim = draw(st.integers(1, 4))
    signed = draw(st.integers(0, 3)) == 0
    nv = draw(st.integers(2, 5))
    vecs = [draw(_vec(dim, signed)) for _ in range(nv)]
    tiny_neg = (not signed) and draw(st.integers(0, 5)) == 0
    if tiny_neg:
        # round-off noise just below zero (e.g. the output of an upstream subtraction): outside the domain of the sqrt/log metrics,
        # so only the "caller data unchanged" and "same arguments, same bits" clauses apply to those evaluations
        for v in vecs:
            j = draw(st.integers(0, dim - 1))
            v[j] = draw(st.sampled_from([-3e-17, -1e-13, -5e-324]))
    n = draw(st.integers(3, 7))
    X = [draw(_vec(dim, False)) for _ in range(n)]
    Y = draw(gen.labels(n, 2, 3))
    K = max(Y) + 1
    nval = draw(st.integers(K, K + 2))
    Xv = [draw(_vec(dim, False)) for _ in range(nval)]
    Yv = draw(gen.labels(nval, K, K))
    off = draw(st.sampled_from([0, 0, 1, 3]))  # class identifiers need not start at 0 (1-based label files are common)
    Y = [y + off for y in Y]
    Yv = [y + off for y in Yv]
    Q = [draw(_vec(dim, False)) for _ in range(draw(st.integers(1, 4)))]
    if draw(st.booleans()):
        Q[0] = list(X[0])
    if draw(st.booleans()):
        # an outlier query far from every training sample, followed by ordinary ones (in-between points)
        Q = [[v + 500.0 for v in Q[0]]] + Q + [[(a + b) / 2 for a, b in zip(X[0], X[-1])], [(a + 3 * b) / 4 for a, b in zip(X[0], X[1])]]
    names = R_METRICS if signed else M.NAMES
    ev = st.tuples(st.just("eval"), st.sampled_from(names), st.integers(0, nv - 1), st.integers(0, nv - 1)).map(list)
    shifted = [n_ for n_ in names if M.shifted(n_)]
    ev2 = st.tuples(st.just("eval"), st.sampled_from(shifted or names), st.integers(0, nv - 1), st.integers(0, nv - 1)).map(list)
    # few (model, metric) combinations per history, so that the same combination is fitted several times
    fm = draw(st.lists(st.sampled_from(FIT_METRICS), min_size=1, max_size=2))
    fk = draw(st.lists(st.sampled_from(["sup", "semi", "knn", "unsup", "unsup"]), min_size=1, max_size=2))
    fit = st.tuples(st.just("fit"), st.sampled_from(fk), st.sampled_from(fm)).map(list)
    other = st.one_of(st.just(["predict"]), st.just(["get_distances"]), st.tuples(st.just("pre_compute"), st.sampled_from(FIT_METRICS), st.sampled_from(["txt", "csv"])).map(list),
                      st.tuples(st.just("fit_twice"), st.sampled_from(["sup", "semi", "knn", "unsup"]), st.sampled_from(FIT_METRICS)).map(list))
    # the CALLER re-uses a buffer: vector i is overwritten in place with new values (a legitimate caller action)
    rewrite = st.tuples(st.just("rewrite"), st.integers(0, nv - 1), _vec(dim, signed)).map(list)
    # a fit of the same kind of model on OTHER (more spread-out) data in between: later fits on the pooled data must not depend on it
    fit_other = st.tuples(st.just("fit_other"), st.sampled_from(fk), st.sampled_from(fm), st.sampled_from([3.0, 10.0, 0.25])).map(list)
    learn = st.tuples(st.just("learn"), st.sampled_from(fm), st.integers(2, 4), st.integers(0, 2**31 - 1)).map(list)
    ops = draw(st.lists(st.one_of(ev, ev, ev2, ev2, fit, fit, other, rewrite, fit_other, learn), min_size=2, max_size=14))
    if draw(st.booleans()):
        # a compact history: fit, fit the same kind of model on other data, fit again on the pooled data
        k_, m_ = draw(st.sampled_from(fk)), draw(st.sampled_from(fm))
        ops = ops + [["fit", k_, m_], ["fit_other", k_, m_, draw(st.sampled_from([3.0, 10.0, 0.25]))], ["fit", k_, m_], ["predict"]]
    if draw(st.booleans()) and ops:
        # replay an earlier evaluation at the end: same key after whatever happened in between
        evs = [o for o in ops if o[0] == "eval"]
        if evs:
            ops = ops + [list(evs[0])]
    return {"vecs": vecs, "X": X, "Y": Y, "Xv": Xv, "Yv": Yv, "Q": Q, "ops": ops, "signed": signed, "tiny_neg": tiny_neg, "layout": draw(st.sampled_from(["C", "C", "C", "F"]))}


def strategy(tier):
    return _case()


def _fit(kind, metric, A, obj=None):
    cls = models.classes()[kind]
    if kind == "knn":
        m = obj or libcall(cls, max_k=2, distance=metric)
        libcall(m.fit, A["X"], A["Y"], A["Xv"], A["Yv"])
    elif kind == "unsup":
        m = obj or libcall(cls, min_k=1, max_k=2, distance=metric)
        libcall(m.fit, A["X"], A["Y"])
    elif kind == "semi":
        m = obj or libcall(cls, distance=metric)
        libcall(m.fit, A["X"], A["Y"], A["Xv"])
    else:
        m = obj or libcall(cls, distance=metric)
        libcall(m.fit, A["X"], A["Y"])
    return m


def _predict(m, A):
    out = libcall(m.predict, A["Q"])
    if isinstance(out, tuple):
        return [[int(v) for v in out[0]], [int(v) for v in out[1]]]
    return [int(v) for v in out]


def check_case(case):
    lib.setup()
    np = models.np()
    import copy

    case = copy.deepcopy(case)  # "rewrite" operations update the interpreter's view of the vectors
    import opfython.math.distance as dist
    import opfython.math.general as g

    A = {
        "X": np.array(case["X"], dtype=float), "Y": np.array(case["Y"], dtype=int),
        "Xv": np.array(case["Xv"], dtype=float), "Yv": np.array(case["Yv"], dtype=int),
        "Q": np.array(case["Q"], dtype=float),
    }
    if case.get("layout") == "F":
        # column-major matrices: every row handed to the library is a strided (non-contiguous) view of the caller's data
        for k_ in ("X", "Xv", "Q"):
            A[k_] = np.asfortranarray(A[k_])
    for i, v in enumerate(case["vecs"]):
        A["v%d" % i] = np.array(v, dtype=float)
    pristine = {k: (a.tobytes(), a.dtype, a.shape) for k, a in A.items()}

    def unchanged(after):
        for k, a in A.items():
            b, dt, sh = pristine[k]
            require(a.dtype == dt and a.shape == sh and a.tobytes() == b, "caller_data_unchanged",
                    lambda: "array %s modified by %s: now %r, originally %r" % (k, after, a.tolist(), np.frombuffer(b, dtype=dt).reshape(sh).tolist()))

    memo = {}
    fit_memo = {}
    model_key = None
    objs = {}
    other_fits = 0
    model = None
    evals_on_zero = {}
    touched_between = set()
    seen_keys = set()
    nontriv = False
    kinds = set()
    with tempfile.TemporaryDirectory(prefix="c07-") as tmp:
        for oi, op in enumerate(case["ops"]):
            kinds.add(op[0])
            if op[0] == "rewrite":
                _, i, newv = op
                A["v%d" % i][:] = np.array(newv, dtype=float)  # same array object, new contents
                case["vecs"][i] = list(newv)
                pristine["v%d" % i] = (A["v%d" % i].tobytes(), A["v%d" % i].dtype, A["v%d" % i].shape)
                touched_between |= seen_keys
            elif op[0] == "eval":
                _, name, i, j = op
                x, y = A["v%d" % i], A["v%d" % j]
                val = np.float64(libcall(dist.DISTANCES[name], x, y))
                # the value depends on the argument VALUES only: it must be the closed form of the CURRENT contents (the reference is
                # computed without calling the library, so the check does not disturb the history it observes)
                in_domain = M.c08_domain(name) in ("R",) or (min(case["vecs"][i]) >= 0 and min(case["vecs"][j]) >= 0)
                okc, msg = M.compare(name, val, case["vecs"][i], case["vecs"][j], shifted_inputs=True) if in_domain else (True, "")
                require(okc, "value_depends_on_argument_values_only", lambda: "%s(v%d, v%d) on the caller's (re-used) arrays: %s (history %r)" % (name, i, j, msg, case["ops"][: oi + 1]))
                key = (name, x.tobytes(), y.tobytes())
                bits = val.tobytes()
                if key in memo:
                    require(memo[key][0] == bits, "same_arguments_same_value", lambda: "%s(v%d, v%d) = %r at operation %d, but %r at operation %d (history %r)" % (name, i, j, float(val), oi, memo[key][1], memo[key][2], case["ops"][: oi + 1]))
                    if key in touched_between:
                        nontriv = True
                else:
                    memo[key] = (bits, float(val), oi)
                seen_keys.add(key)
                if M.shifted(name) and (0.0 in case["vecs"][i] or 0.0 in case["vecs"][j]):
                    evals_on_zero[(name, i, j)] = evals_on_zero.get((name, i, j), 0) + 1
                    for (n2, a, b), c in evals_on_zero.items():
                        if c >= 2 or (a in (i, j) or b in (i, j)) and (n2, a, b) != (name, i, j):
                            nontriv = True
            elif op[0] == "fit":
                prev_obj = objs.get((op[1], op[2]))
                if prev_obj is not None and oi % 2 == 1:
                    # RE-FIT the very same model object (state kept on the object must not leak into the new fit)
                    model = _fit(op[1], op[2], A, obj=prev_obj)
                    kinds.add("refit_same_object")
                else:
                    model = _fit(op[1], op[2], A)
                objs[(op[1], op[2])] = model
                model_key = (op[1], op[2])
                touched_between |= seen_keys
                st_ = models.node_state(model)
                st_.pop("relevant")
                pr_ = _predict(model, A)
                st_.pop("relevant", None)
                st2_ = models.node_state(model)
                for f in st_:
                    require(repr(st_[f]) == repr(st2_[f]), "predict_leaves_model_unchanged", lambda: "field %s of the freshly fitted %s model changed during its first predict: %r -> %r" % (f, op[1], st_[f], st2_[f]))
                key = ("fit", op[1], op[2])
                if key in fit_memo:
                    st0, pr0, o0 = fit_memo[key]
                    for f in st0:
                        require(repr(st0[f]) == repr(st_[f]), "fit_independent_of_history", lambda: "%s/%s: field %s of a fresh fit at operation %d differs from the fresh fit at operation %d on equal data: %r vs %r (history %r)" % (op[1], op[2], f, oi, o0, st_[f], st0[f], case["ops"][: oi + 1]))
                    require(pr0 == pr_, "fit_independent_of_history", "predictions differ: %r vs %r" % (pr_, pr0))
                    if other_fits:
                        nontriv = True
                else:
                    fit_memo[key] = (st_, pr_, oi)
            elif op[0] == "learn":
                # learning over the validation set works on COPIES here (it exchanges rows by design); afterwards the object must
                # predict exactly like a fresh classifier fitted on the training set its forest holds
                m_l = libcall(models.classes()["sup"], distance=op[1])
                np.random.seed(op[3] % (2**32))
                libcall(m_l.learn, A["X"].copy(), A["Y"].copy(), A["Xv"].copy(), A["Yv"].copy(), op[2])
                Xn = np.array([np.asarray(nd.features, dtype=float) for nd in m_l.subgraph.nodes])
                Yn = np.array([int(nd.label) for nd in m_l.subgraph.nodes], dtype=int)
                m_f = libcall(models.classes()["sup"], distance=op[1])
                libcall(m_f.fit, Xn.copy(), Yn.copy())
                p_l = [int(v) for v in libcall(m_l.predict, A["Q"].copy())]
                p_f = [int(v) for v in libcall(m_f.predict, A["Q"].copy())]
                require(p_l == p_f, "object_predicts_with_the_forest_it_holds", lambda: "after learn() the object predicts %r, a fresh fit on the training set held by its forest predicts %r" % (p_l, p_f))
                touched_between |= seen_keys
            elif op[0] == "fit_other":
                B = dict(A, X=A["X"] * op[3] + 1.0, Xv=A["Xv"] * op[3] + 1.0, Q=A["Q"] * op[3])
                _fit(op[1], op[2], B)
                other_fits += 1
                touched_between |= seen_keys
            elif op[0] == "predict":
                if model is None:
                    model = _fit("sup", "euclidean", A)
                st_before = models.node_state(model)
                p_first = _predict(model, A)
                p_again = _predict(model, A)
                if model_key is not None and model_key[0] == "unsup":
                    # labels propagated AFTER a prediction: the next prediction must be that of a model that never predicted before
                    libcall(model.propagate_labels)
                    p_prop = _predict(model, A)
                    twin = _fit("unsup", model_key[1], A)
                    libcall(twin.propagate_labels)
                    p_twin = _predict(twin, A)
                    require(p_prop == p_twin, "predict_after_propagate_labels", lambda: "predict -> propagate_labels -> predict gives %r, fit -> propagate_labels -> predict gives %r" % (p_prop, p_twin))
                    model = twin  # keep going with an object whose state is known (labels propagated)
                    st_before = models.node_state(model)
                    p_first = p_again = p_twin
                st_after = models.node_state(model)
                for f in st_before:
                    if f != "relevant":
                        require(repr(st_before[f]) == repr(st_after[f]), "predict_leaves_model_unchanged", lambda: "field %s of the fitted model changed during predict: %r -> %r" % (f, st_before[f], st_after[f]))
                require(p_first == p_again, "predict_twice_identical", lambda: "the same fitted model predicted %r, then %r, for the same query matrix (history %r)" % (p_first, p_again, case["ops"][: oi + 1]))
                touched_between |= seen_keys
            elif op[0] == "get_distances":
                if model is None:
                    model = _fit("sup", "euclidean", A)
                libcall(model.get_distances)
            elif op[0] == "pre_compute":
                libcall(g.pre_compute_distance, A["X"], os.path.join(tmp, "d%d.%s" % (oi, op[2])), op[1])
                touched_between |= seen_keys
            elif op[0] == "fit_twice":
                m1 = _fit(op[1], op[2], A)
                s1 = models.node_state(m1)
                p1 = _predict(m1, A)
                m2 = _fit(op[1], op[2], A)
                s2 = models.node_state(m2)
                p2 = _predict(m2, A)
                s1.pop("relevant"), s2.pop("relevant")
                for f in s1:
                    require(repr(s1[f]) == repr(s2[f]), "fit_twice_identical", lambda: "%s/%s: field %s differs between two fresh fits: %r vs %r" % (op[1], op[2], f, s1[f], s2[f]))
                require(p1 == p2, "fit_twice_identical", "predictions differ: %r vs %r" % (p1, p2))
                touched_between |= seen_keys
            unchanged("operation %d %r" % (oi, op))
    cl = ["op_" + k for k in sorted(kinds)] + ["signed" if case["signed"] else "nonneg_with_zeros", "layout_" + case.get("layout", "C")]
    return Outcome.ok(nontrivial=nontriv, classes=cl)
