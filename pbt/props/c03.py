"""C03 -- supervised prediction equals the exhaustive minimum of max(cost, distance)."""
from hypothesis import strategies as st

from ..common import oracles, supcase
from ..common.outcome import Outcome, require

ID = "C03"
RULE = (
    "a fitted SupervisedOPF or SemiSupervisedOPF (generators of C01/C15: tied / tie-free / float pre-computed matrices, feature data with a drawn metric) plus 1..8 queries: "
    "rows of the same pre-computed matrix (ties, zero weights, far queries) or feature vectors (copies of training samples included); bounded-exhaustive: all matrices over "
    "{1,2,3} on 3 training nodes + 1 query (and 4+1 in thorough). Oracle: V[t] = max(cost(t), d(t,x)) from outside with the same callable and argument order; the returned label "
    "must be the assigned label of some t with V[t] == min V (exact). non-trivial: the arg-min set does not contain the first sample of the conquest order and >= 2 distinct "
    "assigned labels occur among samples with V <= 2 min V; distinct by case hash"
)
ASSUMPTIONS = ["costs and assigned labels are read from the fitted model (their correctness is C01/C15)"]
BUDGET = {
    "quick": {"examples": 9600, "shards": 16, "min_nontrivial": 300},
    "thorough": {"examples": 192000, "shards": 16, "min_nontrivial": 6000, "max_wall": 3000},
}


ALL_NONNEG = sorted(n for n in __import__("pbt.common.metrics", fromlist=["x"]).NAMES if n not in ("statistic",))


def strategy(tier):
    nmax = 10 if tier == "quick" else 30
    sym = supcase.sup_case(nmax=nmax, kinds=("sup", "sup", "semi"), nq=(1, 8), nu=(0, 4))
    # "for every metric": also the asymmetric divergences (costs / labels are taken from the model, only predict is decided here)
    anym = supcase.sup_case(nmax=nmax, kinds=("sup", "semi"), nq=(1, 8), nu=(0, 3), modes=("feat",), metrics=["neyman", "pearson", "kullback_leibler", "k_divergence", "gaussian"])
    return st.one_of(sym, sym, sym, anym)


def enumerate_cases(tier):
    yield from supcase.enumerate_pre_cases(4, (1, 2, 3), nq=1)
    if tier == "thorough":
        yield from supcase.enumerate_pre_cases(5, (1, 2), nq=1)
        yield from supcase.enumerate_pre_cases(4, (0, 1, 2), nq=1)
        yield from supcase.enumerate_pre_cases(4, (1, 2), nq=1, nu=1, model="semi", kmax=2)


def check_predictions(r, case):
    s = r.state
    n = s["n_nodes"]
    nt_count = 0
    early = 0
    order = s["idx_nodes"]
    require(r.preds is not None and len(r.preds) == case["nq"], "predict:length", "got %r predictions for %d queries" % (r.preds, case["nq"]))
    for q in range(case["nq"]):
        dq = r.DQ[q]
        labels, m, vals = oracles.argmin_labels(s["cost"], s["predicted_label"], dq)
        require(r.preds[q] in labels, "predict:exhaustive_argmin", lambda: "query %d: predicted %r, exhaustive arg-min labels %r (min %r; V=%r costs=%r assigned=%r d=%r order=%r)" % (
            q, r.preds[q], sorted(labels), m, vals, s["cost"], s["predicted_label"], dq, order))
        argmin = {i for i, v in enumerate(vals) if v == m}
        near = {s["predicted_label"][i] for i, v in enumerate(vals) if v <= 2 * m}
        if order and order[0] not in argmin and len(near) >= 2:
            nt_count += 1
        if order and m <= s["cost"][order[-1]]:
            early += 1
    return nt_count, early


def check_case(case):
    r = supcase.run(case, predict=True, need_symmetric=False)
    if isinstance(r, str):
        return Outcome.discard(r)
    ntc, early = check_predictions(r, case)
    cl = ["model_" + case["model"], "mode_" + case["mode"]]
    if case["mode"] == "feat" and case["metric"] in ("neyman", "pearson", "kullback_leibler", "k_divergence"):
        cl.append("asymmetric_metric")
    if early:
        cl.append("early_exit_possible")
    if case["mode"] == "pre":
        cl.append("w_" + case["wmode"])
    return Outcome.ok(nontrivial=ntc > 0, classes=cl)
