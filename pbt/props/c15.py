"""C15 -- semi-supervised training extends the optimum-path forest to unlabeled samples."""
from hypothesis import strategies as st

from ..common import models, supcase
from ..common.outcome import Outcome, require
from . import c01, c02

ID = "C15"
RULE = (
    "SemiSupervisedOPF.fit on a labeled set (>= 2 classes) + 0..8 unlabeled samples: pre-computed matrices over the union in the layout the API mandates "
    "(tied / tie-free / float), feature data (generic, lattice, positive) with a drawn symmetric metric, 'bridge' data (unlabeled points on segments between labeled points of different classes); "
    "bounded-exhaustive: all matrices over {1,2,3} on 2 labeled + 2 unlabeled and 3 labeled + 1 unlabeled nodes. Oracle on the union graph: prototypes subset of labeled and admissible for the "
    "labeled sub-graph (C02 oracle), minimax fix-point costs equal every cost exactly, forest well-formed with the root prototype's true label, conquest order a permutation of all nodes in "
    "non-decreasing cost; empty unlabeled set: every cost, prototype flag, assigned label and prediction equals SupervisedOPF on the labeled set. "
    "non-trivial: an unlabeled sample is the predecessor of another sample, or the unlabeled set is empty with >= 1 query; distinct by case hash"
)
ASSUMPTIONS = ["for pre-computed distances the unlabeled rows follow the labeled rows in the matrix (the only layout the API can express)"]
BUDGET = {
    "quick": {"examples": 6400, "shards": 16, "min_nontrivial": 300},
    "thorough": {"examples": 160000, "shards": 16, "min_nontrivial": 5000, "max_wall": 3000},
}


@st.composite
def bridge_case(draw):
    """unlabeled points on segments between labeled points of different classes (feature mode, Euclidean family)"""
    base = draw(supcase.sup_case(nmax=7, kinds=("semi",), nu=(0, 0), nq=(0, 3), modes=("feat",), metrics=["euclidean", "squared_euclidean", "manhattan", "log_squared_euclidean", "chebyshev"]))
    nt, nq = base["nt"], base["nq"]
    X, Y = base["X"], base["Y"]
    lab, qs = X[:nt], X[nt:]
    unl = []
    k = draw(st.integers(1, 6))
    for _ in range(k):
        a = draw(st.integers(0, nt - 1))
        others = [j for j in range(nt) if Y[j] != Y[a]]
        b = others[draw(st.integers(0, len(others) - 1))]
        t = draw(st.sampled_from([0.25, 0.5, 0.75, 0.125, 0.875]))
        unl.append([pa + t * (pb - pa) for pa, pb in zip(lab[a], lab[b])])
    base["X"] = lab + unl + qs
    base["nu"] = k
    base["pkind"] = "bridge"
    return base


def strategy(tier):
    nmax = 9 if tier == "quick" else 24
    gen_ = supcase.sup_case(nmax=nmax, kinds=("semi",), nu=(0, 8), nq=(0, 3))
    empty = supcase.sup_case(nmax=nmax, kinds=("semi",), nu=(0, 0), nq=(1, 4))
    return st.one_of(gen_, gen_, gen_, gen_, bridge_case(), bridge_case(), empty)


def enumerate_cases(tier):
    yield from supcase.enumerate_pre_cases(4, (1, 2, 3), model="semi", nu=2, kmax=2)
    yield from supcase.enumerate_pre_cases(4, (1, 2, 3), model="semi", nu=1)
    if tier == "thorough":
        yield from supcase.enumerate_pre_cases(5, (1, 2), model="semi", nu=2)
        yield from supcase.enumerate_pre_cases(5, (1, 2), model="semi", nu=3, kmax=2)


def check_case(case):
    r = supcase.run(case, predict=True)
    if isinstance(r, str):
        return Outcome.discard(r)
    s = r.state
    nt, nu = case["nt"], case["nu"]
    require(s["n_nodes"] == nt + nu, "all_samples_conquered", "n_nodes %d != labeled %d + unlabeled %d" % (s["n_nodes"], nt, nu))
    c01.check_forest(r, case)
    c02.check_prototypes(r, case)
    # "carries the true label of the prototype at the root": the semi-supervised competition also writes the propagated
    # label into Node.label of every conquered sample (labeled or not), so both label fields must agree afterwards
    for i in range(nt + nu):
        if s["pred"][i] != -1:
            require(s["label"][i] == s["predicted_label"][i], "conquered_sample_carries_root_label", lambda: "node %d: label %r but propagated label %r (root's true label)" % (i, s["label"][i], s["predicted_label"][i]))
    through = any(p >= nt for p in s["pred"] if p != -1)
    cl = ["mode_" + case["mode"], "nu=%d" % min(nu, 3)]
    if case.get("pkind") == "bridge":
        cl.append("bridge")
    if through:
        cl.append("path_through_unlabeled")
    if nu == 0:
        # identical to supervised training on the labeled set
        sup = dict(case, model="sup")
        r2 = supcase.run(sup, predict=True)
        require(not isinstance(r2, str), "harness", "supervised twin discarded")
        # "identical result": every cost, prototype flag and assigned label (and the predictions below).  Which of several
        # equally good predecessors is recorded, and the conquest order among samples of EQUAL cost, are not pinned down by the
        # statement (both forests are separately required to be valid optimum-path forests), so they are not compared.
        for f in ("cost", "status", "predicted_label"):
            require(s[f] == r2.state[f], "empty_unlabeled:same_as_supervised", lambda: "field %s: semi %r vs supervised %r (case %r)" % (f, s[f], r2.state[f], case))
        require(r.preds == r2.preds, "empty_unlabeled:same_predictions", "semi %r vs supervised %r" % (r.preds, r2.preds))
        cl.append("empty_unlabeled")
    return Outcome.ok(nontrivial=through or (nu == 0 and case["nq"] > 0), classes=cl)
