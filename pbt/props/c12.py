"""C12 -- the k-NN graph and density estimate are exact."""
import math

from hypothesis import strategies as st

from ..common import gen, lib, models
from ..common import metrics as M
from ..common.lib import libcall
from ..common.outcome import Outcome, require

ID = "C12"
RULE = (
    "KNNSubgraph on generic / lattice / positive / all-duplicate feature data with a drawn non-negative metric (asymmetric divergences included), and on pre-computed matrices with 1-4 weight levels "
    "(heavy ties), tie-free or float weights; create_arcs with k in 1..n+2, then (k <= n-1) calculate_pdf on the fresh arcs and eliminate_maxima_height for heights {-1, 0, small, > max density}. "
    "Oracle from the statement: neighbour lists (length min(k,n-1), distinct, no self, ascending, multiset of the smallest distances - tie-aware), radius, per-rank maxima, density bound with the 1e-5 fallback; "
    "constant = 2/9 of the bound in force (the one left by create_arcs, or the rank-k maximum installed through the density attribute before an estimate over k < arcs-k neighbours), pdf = sum exp(-d/constant)/(k+1), stored min/max, affine map (min->1, max->MAX_DENSITY up to rounding, all equal -> MAX_DENSITY, order preserved), cost = density-1 exactly, "
    "heights: cost = max(density-h, 0) / unchanged. non-trivial: a tie at some sample's k-th distance, or k >= 2 with >= 3 distinct densities; distinct by case hash"
)
ASSUMPTIONS = ["value comparison of mapped densities uses a conditioning-aware tolerance (skipped, and counted, when (max-min) of the pdf is below 1e-9 of its magnitude)"]
BUDGET = {
    "quick": {"examples": 9600, "shards": 16, "min_nontrivial": 500},
    "thorough": {"examples": 256000, "shards": 16, "min_nontrivial": 10000, "max_wall": 3000},
}
KNN_METRICS = sorted(n for n in M.NAMES if M.dissimilarity(n))


@st.composite
def _case(draw, nmax):
    mode = draw(st.sampled_from(["pre", "pre", "feat", "feat", "dup"]))
    n = draw(st.one_of(st.integers(1, 6), st.integers(2, nmax)))
    k = draw(st.one_of(st.integers(1, max(1, n - 1)), st.integers(1, n + 2)))
    heights = draw(st.lists(st.one_of(st.sampled_from([-1.0, 0.0, 0.5, 1.0, 10.0, 999.0, 1000.0, 2000.0]), st.floats(0.001, 1500.0)), min_size=1, max_size=3))
    case = {"mode": mode, "n": n, "k": k, "heights": heights, "k_first": draw(st.one_of(st.none(), st.none(), st.integers(1, n + 2))), "k_pdf": draw(st.one_of(st.none(), st.integers(1, max(1, min(k, n - 1)))))}
    if mode == "pre":
        W, wm = draw(gen.weight_matrix(n))
        if draw(st.integers(0, 5)) == 0:
            sc = draw(st.sampled_from([1e-6, 1e-7, 1e-3]))
            W = [[v * sc for v in row] for row in W]
            wm += "_tiny"
        case["W"], case["wmode"] = W, wm
        perm = draw(st.permutations(list(range(n))))
        case["I"] = list(perm)  # node i uses matrix row I[i]
    else:
        name = draw(st.sampled_from(KNN_METRICS))
        kind = draw(st.sampled_from(gen.metric_point_kind(name)))
        dim = draw(st.integers(1, 4))
        if mode == "dup":
            p = draw(gen.points(1, dim, kind))[0]
            X = [list(p) for _ in range(n)]
            if n > 2 and draw(st.booleans()):
                X[0] = draw(gen.points(1, dim, kind))[0]
        else:
            X = draw(gen.points(n, dim, kind))
        case.update({"X": X, "metric": name, "pkind": kind})
    return case


def strategy(tier):
    return _case(10 if tier == "quick" else 30)


def _ref_pdf(np, D, adj, k, constant):
    """sum of exp(-d/constant) over the k listed neighbours divided by k+1 (float64, same summation order as the listing)"""
    out = []
    for i in range(len(adj)):
        s = np.float64(0.0)
        for j in adj[i][:k]:
            s = s + np.exp(-np.float64(D[i][j]) / constant)
        out.append(float(s / (k + 1)))
    return out


def check_case(case):
    lib.setup()
    np = models.np()
    from opfython.subgraphs.knn import KNNSubgraph
    import opfython.utils.constants as c

    n, k = case["n"], case["k"]
    if case["mode"] == "pre":
        I = case["I"]
        Wm = case["W"]
        X = models.index_features(n)
        sg = libcall(KNNSubgraph, X, None, np.array(I))
        pre = np.array(Wm, dtype=float)
        D = [[Wm[I[i]][I[j]] for j in range(n)] for i in range(n)]
        args = (lambda: None, True, pre)
        fn = None
    else:
        name = case["metric"]
        Xl = [list(map(float, p)) for p in case["X"]]
        X = np.array(Xl, dtype=float).reshape(n, -1)
        sg = libcall(KNNSubgraph, X.copy())
        D = models.eval_matrix(name, Xl)
        fn = models.dist_fn(name)
        args = (fn, False, None)
        if not all(math.isfinite(v) and v >= 0 for row in D for v in row):
            return Outcome.discard("not_finite_nonneg")
    reused = False
    if case.get("k_first"):
        # arcs were created before with another k and destroyed: the second creation must be as exact as the first
        # (the sub-graph's density BOUND is a running maximum and is not claimed for a re-used sub-graph: skipped below)
        libcall(sg.create_arcs, case["k_first"], *args)
        libcall(sg.destroy_arcs)
        reused = True
    maxd = libcall(sg.create_arcs, k, *args)
    kk = min(k, n - 1)
    cl = ["mode_" + case["mode"], "k>n-1" if k > n - 1 else "k<=n-1"]
    tie_at_k = False
    all_listed = []
    sorted_rows = []
    for i in range(n):
        nd = sg.nodes[i]
        adj = [int(a) for a in nd.adjacency]
        require(all(float(a) == int(a) for a in nd.adjacency), "arcs:integral_ids", "node %d adjacency %r" % (i, nd.adjacency))
        require(len(adj) == kk, "arcs:length", lambda: "node %d has %d neighbours, expected min(k=%d, n-1=%d) (D row %r)" % (i, len(adj), k, n - 1, D[i]))
        require(len(set(adj)) == len(adj) and i not in adj and all(0 <= a < n for a in adj), "arcs:distinct_no_self", "node %d adjacency %r" % (i, adj))
        ds = [D[i][a] for a in adj]
        require(all(ds[t] <= ds[t + 1] for t in range(len(ds) - 1)), "arcs:ascending", lambda: "node %d neighbour distances %r" % (i, ds))
        others = sorted(D[i][j] for j in range(n) if j != i)
        sorted_rows.append(others)
        require(ds == others[:kk], "arcs:k_smallest", lambda: "node %d lists distances %r, the %d smallest are %r" % (i, ds, kk, others[:kk]))
        exp_radius = max(ds) if ds else 0.0
        require(float(nd.radius) == exp_radius, "arcs:radius", lambda: "node %d radius %r expected %r" % (i, nd.radius, exp_radius))
        all_listed += ds
        if kk >= 1 and len(others) > kk and others[kk] == others[kk - 1]:
            tie_at_k = True
    maxd = [float(v) for v in maxd]
    require(len(maxd) == k, "arcs:maxima_length", "returned %d maxima for k=%d" % (len(maxd), k))
    for l in range(k):
        exp = max((sorted_rows[i][l] for i in range(n)), default=0.0) if l < kk else 0.0
        require(maxd[l] == exp, "arcs:per_rank_maxima", lambda: "rank %d: returned %r, true maximum %r" % (l, maxd[l], exp))
    bound = max(all_listed) if all_listed else 0.0
    exp_bound = bound if bound >= 0.00001 else 1
    if reused:
        cl.append("arcs_recreated_after_destroy")
        return Outcome.ok(nontrivial=tie_at_k, classes=cl)
    require(float(sg.density) == exp_bound, "arcs:density_bound", lambda: "subgraph.density %r expected %r (max listed distance %r)" % (sg.density, exp_bound, bound))

    distinct_dens = 0
    k_arcs = k
    if case.get("k_pdf") and case["k_pdf"] <= min(k, n - 1) and n >= 2:
        # density over the k' <= k nearest of arcs created with k (the pattern of the unsupervised k search)
        k = case["k_pdf"]
        cl.append("pdf_k_smaller_than_arcs" if k < k_arcs else "pdf_k_equals_arcs")
        if case["n"] % 3 != 0 and maxd[k - 1] >= 0.00001:
            # the density bound of rank k installed through the public attribute before the estimate (what the unsupervised k search does):
            # the recorded constant is 2/9 of the bound in force
            sg.density = maxd[k - 1]
            exp_bound = maxd[k - 1]
            cl.append("bound_set_to_rank_k")
    if k <= n - 1:
        adjs = [[int(a) for a in sg.nodes[i].adjacency] for i in range(n)]
        if case["n"] % 2 == 0 and k_arcs >= 2:
            # an earlier density estimate on the same sub-graph with another k must leave no trace
            libcall(sg.calculate_pdf, max(1, min(k_arcs, n - 1) - (1 if k == min(k_arcs, n - 1) else 0)) if k > 1 else min(k_arcs, n - 1), *args)
            cl.append("pdf_computed_twice")
        libcall(sg.calculate_pdf, k, *args)
        constant = 2 * exp_bound / 9
        require(abs(float(sg.constant) - constant) <= 1e-15 * constant, "pdf:constant", "constant %r expected 2/9*%r=%r" % (sg.constant, exp_bound, constant))
        pdf = _ref_pdf(np, D, adjs, k, np.float64(constant))
        lo, hi = min(pdf), max(pdf)
        rt = 1e-12
        require(abs(float(sg.min_density) - lo) <= rt * abs(lo) + 1e-300 and abs(float(sg.max_density) - hi) <= rt * abs(hi) + 1e-300, "pdf:stored_min_max",
                lambda: "stored (%r, %r), reference (%r, %r)" % (sg.min_density, sg.max_density, lo, hi))
        dens = [float(sg.nodes[i].density) for i in range(n)]
        costs = [float(sg.nodes[i].cost) for i in range(n)]
        for i in range(n):
            require(costs[i] == dens[i] - 1, "pdf:cost_is_density_minus_1", "node %d cost %r density %r" % (i, costs[i], dens[i]))
        if all(p == pdf[0] for p in pdf) and float(sg.min_density) == float(sg.max_density):
            require(all(d == c.MAX_DENSITY for d in dens), "pdf:all_equal_max_density", "densities %r" % dens)
            cl.append("all_equal")
        elif hi - lo <= 1e-9 * abs(hi):
            cl.append("ill_conditioned_range_skipped")
            require(all(1 - 1e-6 <= d <= c.MAX_DENSITY + 1e-6 for d in dens), "pdf:range", "densities %r" % dens)
        else:
            rng = hi - lo
            tol = lambda p: 1e-6 + 999 * 8e-16 * (k + 2) * abs(p) / rng * 4  # noqa
            for i in range(n):
                ref = (c.MAX_DENSITY - 1) * (pdf[i] - lo) / rng + 1
                require(abs(dens[i] - ref) <= tol(pdf[i]), "pdf:affine_map", lambda: "node %d density %r expected %r (pdf %r, min %r, max %r)" % (i, dens[i], ref, pdf[i], lo, hi))
                require(1 - 1e-9 <= dens[i] <= c.MAX_DENSITY + 1e-9, "pdf:range", "node %d density %r" % (i, dens[i]))
            # "minimum to 1, maximum to MAX_DENSITY" up to rounding: 999*r/r need not be exactly 999 in floating point
            imin = [i for i in range(n) if abs(dens[i] - 1) <= 1e-9]
            imax = [i for i in range(n) if abs(dens[i] - c.MAX_DENSITY) <= 1e-9]
            require(imin and all(pdf[i] <= lo * (1 + rt) + 1e-300 for i in imin), "pdf:minimum_to_1", lambda: "densities %r pdf %r" % (dens, pdf))
            require(imax and all(pdf[i] >= hi * (1 - rt) for i in imax), "pdf:maximum_to_max_density", lambda: "densities %r pdf %r" % (dens, pdf))
            for i in range(n):
                for j in range(n):
                    if pdf[i] < pdf[j] * (1 - 1e-9) - 1e-300:
                        require(dens[i] <= dens[j], "pdf:order_preserved", lambda: "pdf %r < %r but density %r > %r" % (pdf[i], pdf[j], dens[i], dens[j]))
        distinct_dens = len(set(dens))
        cl.append("pdf")
        for h in case["heights"]:
            before = [float(sg.nodes[i].cost) for i in range(n)]
            libcall(sg.eliminate_maxima_height, h)
            after = [float(sg.nodes[i].cost) for i in range(n)]
            if h > 0:
                exp = [max(dens[i] - h, 0) for i in range(n)]
                require(after == exp, "height:max_density_minus_h_0", lambda: "h=%r costs %r expected %r" % (h, after, exp))
            else:
                require(after == before, "height:non_positive_changes_nothing", lambda: "h=%r costs %r -> %r" % (h, before, after))
            require([float(sg.nodes[i].density) for i in range(n)] == dens, "height:density_untouched", "densities changed by eliminate_maxima_height")
    if tie_at_k:
        cl.append("tie_at_kth")
    if bound < 0.00001:
        cl.append("bound_fallback_1")
    return Outcome.ok(nontrivial=tie_at_k or (k >= 2 and distinct_dens >= 3), classes=cl)
