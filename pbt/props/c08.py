"""C08 -- metric axioms: finite, symmetric, non-negative, zero self-distance, triangle (per the fixed axiom table)."""
import math

from hypothesis import strategies as st

from ..common import gen, lib
from ..common import metrics as M
from ..common.outcome import Outcome, require

ID = "C08"
RULE = (
    "identifier x length 1..64 x triple (x, y, z) from the identifier's C08 domain (zeros included for eps-shifted metrics, probability vectors "
    "for bhattacharyya/KL/K-divergence), with forced classes: identical (same object and equal copy), parallel, one-dimensional, zero-containing, "
    "all-zero, 1-ulp-apart, near-duplicate chains x, x+d, x+2d (d from 1e-12 to 1e-3), large/small magnitude. Oracle per the axiom table of DESIGN.md section 5: finite (47), symmetric (42), "
    "non-negative and d(x,x)=0 up to rounding (45), triangle (13). Tolerances: the rounding scale of section 5. "
    "non-trivial: x != y and the triple belongs to >= 1 forced class; distinct by hash of (name, triple)"
)
ASSUMPTIONS = ["axiom table (which metric claims which axiom) fixed in pbt/common/metrics.py", "tolerance model of DESIGN.md section 5"]
BUDGET = {
    "quick": {"examples": 14400, "shards": 16, "min_nontrivial": 3000, "min_per_name": 60},
    "thorough": {"examples": 240000, "shards": 16, "min_nontrivial": 60000, "min_per_name": 1500, "max_wall": 3000},
}
SHARDED_STRATEGY = True


def strategy(tier, shard=0, nshards=1):
    names = [n for i, n in enumerate(M.NAMES) if i % nshards == shard] or M.NAMES

    @st.composite
    def triple(draw):
        name = names[draw(st.integers(0, 10**6)) % len(names)]
        dom = M.c08_domain(name)
        mag = draw(st.sampled_from([gen.MAG, gen.MAG, gen.MAG_SMALL, st.floats(1e3, 1e6), st.floats(1e-3, 1e-2)]))
        x, y, kind = draw(gen.vector_pair(dom, nmax=64, mag=mag, allow_huge=False))
        n = len(x)
        zk = draw(st.sampled_from(["indep", "indep", "between", "x", "y", "allzero", "chain", "chain"]))
        if kind == "very_long" and draw(st.booleans()):
            z = gen._fix_domain(dom, [2 * b - a for a, b in zip(x, y)], 1.0)  # collinear continuation x, y, z
            if dom in ("NN", "NN0", "P", "PROB") and min(z) < 0:
                z = [abs(v) for v in z]
            zk = "collinear"
        elif kind == "sparse":
            z = draw(st.lists(st.one_of(st.just(0.0), st.just(0.0), gen.elem(dom, mag)), min_size=n, max_size=n))
            zk = "sparse"
        elif zk == "indep":
            z = draw(gen.vector(dom, n, mag))
        elif zk == "between":
            z = gen._fix_domain(dom, [(a + b) / 2 for a, b in zip(x, y)], 1.0)
        elif zk == "chain":
            # near-duplicate chain x, x+d, x+2d with a tiny step: exposes tolerance-based (non-transitive) equality
            step = draw(st.sampled_from([6e-9, 6e-7, 1e-12, 6e-5, 1e-3]))
            sc = [abs(a) if (abs(a) >= 1.0 and draw(st.booleans())) else 1.0 for a in x]
            y = gen._fix_domain(dom, [a + step * c_ for a, c_ in zip(x, sc)], 1.0)
            z = gen._fix_domain(dom, [a + 2 * step * c_ for a, c_ in zip(x, sc)], 1.0)
            kind = "chain"
        elif zk == "x":
            z = list(x)
        elif zk == "y":
            z = list(y)
        else:
            z = [0.0] * n
            if dom in ("RNZ", "PROB"):
                z = draw(gen.vector(dom, n, mag))
                zk = "indep"
        if draw(st.integers(0, 9)) == 0 and dom not in ("RNZ", "PROB"):
            x = [0.0] * n
            kind = "x_allzero"
        return {"name": name, "x": x, "y": y, "z": z, "kind": kind, "zkind": zk}

    return triple()


_WARMED32 = set()


def _nonneg_ok(name, d, x, y):
    tol, ref = M.direct_tolerance(name, x, y)
    return d >= -tol, tol


def check_case(case):
    lib.setup()
    import numpy as np
    import opfython.math.distance as dist

    name, x, y, z = case["name"], case["x"], case["y"], case["z"]
    fn = dist.DISTANCES[name]
    A = lambda v: np.array(v, dtype=float)  # noqa
    n = len(x)
    if name not in _WARMED32:
        # the first call of each identifier in this process uses single-precision copies (result not judged): which
        # specialisation is compiled / dispatched first must not influence the double-precision results below
        _WARMED32.add(name)
        # ... and some user has plugged a function of their own, named like the library's, into one model object: the axioms are
        # about the registered identifier, which must still mean the library's metric
        try:
            from opfython.models.supervised import SupervisedOPF

            def _custom(a, b):
                return float(a[0]) - 2.0 * float(b[0])

            _custom.__name__ = name + "_distance"
            SupervisedOPF(distance=name).distance_fn = _custom
        except Exception:
            pass
        fn = dist.DISTANCES[name]
        try:
            fn(np.array(x, dtype=np.float32), np.array(y, dtype=np.float32))
        except Exception:
            pass

    def d(u, v):
        return float(lib.libcall(fn, A(u), A(v)))

    dxy, dyx = d(x, y), d(y, x)
    xa = A(x)
    dxx_same = float(lib.libcall(fn, xa, xa))  # the same object twice
    dxx = d(x, x)
    dyy = d(y, y)
    # the same evaluations through ONE caller buffer that is refilled in place between the calls (a re-used sample buffer):
    # the axioms are about argument values, so these must be the very same numbers
    buf = A(x)
    b_xy = float(lib.libcall(fn, buf, A(y)))
    buf[:] = A(y)
    b_yx = float(lib.libcall(fn, buf, A(x)))
    b_yy = float(lib.libcall(fn, buf, A(y)))
    for lbl, got, exp in (("d(x,y)", b_xy, dxy), ("d(y,x)", b_yx, dyx), ("d(y,y)", b_yy, dyy)):
        require(got == exp or (got != got and exp != exp), "value_independent_of_buffer_reuse:" + name, lambda: "%s through a re-used buffer = %r, with fresh arrays = %r (x=%r y=%r)" % (lbl, got, exp, x[:8], y[:8]))
    vals = {"d(x,y)": dxy, "d(y,x)": dyx, "d(x,x) same object": dxx_same, "d(x,x)": dxx, "d(y,y)": dyy}
    for k, v in vals.items():
        require(math.isfinite(v), "finite:" + name, lambda: "%s = %r for x=%r y=%r" % (k, v, x[:8], y[:8]))
    require(dxx_same == dxx or abs(dxx_same - dxx) <= M.direct_tolerance(name, x, x)[0], "self_same_object:" + name, lambda: "d(x,x) with one object %r vs equal copies %r" % (dxx_same, dxx))
    if M.symmetric(name):
        t1, _ = M.direct_tolerance(name, x, y)
        t2, _ = M.direct_tolerance(name, y, x)
        require(abs(dxy - dyx) <= t1 + t2, "symmetric:" + name, lambda: "d(x,y)=%r d(y,x)=%r tol=%g x=%r y=%r" % (dxy, dyx, t1 + t2, x[:8], y[:8]))
    if M.dissimilarity(name):
        for lbl, v, (u, w) in (("d(x,y)", dxy, (x, y)), ("d(y,x)", dyx, (y, x))):
            ok, tol = _nonneg_ok(name, v, u, w)
            require(ok, "non_negative:" + name, lambda: "%s=%r < -%g for x=%r y=%r" % (lbl, v, tol, x[:8], y[:8]))
        for lbl, v, u in (("d(x,x)", dxx, x), ("d(y,y)", dyy, y), ("d(x,x) same object", dxx_same, x)):
            ok, msg = M.compare(name, v, u, u, shifted_inputs=True)
            tol, ref = M.direct_tolerance(name, u, u)
            if abs(ref) > 1e-9:
                raise RuntimeError("axiom table inconsistent: closed form of %s(x,x) = %r" % (name, ref))
            require(ok or abs(v) <= tol, "zero_self_distance:" + name, lambda: "%s=%r (tol %g) for %r" % (lbl, v, tol, u[:8]))
    if M.triangle(name):
        dxz, dyz = d(x, z), d(y, z)
        require(math.isfinite(dxz) and math.isfinite(dyz), "finite:" + name, lambda: "d(x,z)=%r d(y,z)=%r" % (dxz, dyz))
        tol = M.direct_tolerance(name, x, z)[0] + M.direct_tolerance(name, x, y)[0] + M.direct_tolerance(name, y, z)[0]
        require(dxz <= dxy + dyz + tol, "triangle:" + name, lambda: "d(x,z)=%r > d(x,y)+d(y,z)=%r+%r (tol %g) x=%r y=%r z=%r" % (dxz, dxy, dyz, tol, x[:8], y[:8], z[:8]))
        require(dxy <= dxz + dyz + tol, "triangle:" + name, lambda: "d(x,y)=%r > d(x,z)+d(z,y)=%r+%r (tol %g)" % (dxy, dxz, dyz, tol))
    cl = ["m:" + name, "kind_" + case["kind"], "z_" + case["zkind"]]
    forced = case["kind"] != "indep" or case["zkind"] in ("allzero", "between")
    if n == 1:
        cl.append("one_dimensional")
        forced = True
    if any(v == 0 for v in x) or any(v == 0 for v in y):
        cl.append("zero_containing")
        forced = True
    if max(map(abs, x + y)) >= 1e3:
        cl.append("large_magnitude")
        forced = True
    if M.triangle(name):
        cl.append("triangle_checked")
    return Outcome.ok(nontrivial=(x != y and forced), classes=cl)


def starved(tier, classes):
    need = BUDGET[tier]["min_per_name"]
    low = [(n, classes.get("m:" + n, 0)) for n in M.NAMES if classes.get("m:" + n, 0) < need]
    if low:
        return "per-identifier minimum %d not reached: %r" % (need, low[:8])
    return None
