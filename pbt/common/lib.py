"""Access to the code under test.

* puts $VERIF_REPO (default /repo) first on sys.path and asserts opfython is imported from it
* silences opfython's logging before import (no opfython.log is created)
* numba cache directory keyed by a hash of the whole opfython source tree, so compiled code
  always corresponds to the current working tree
* libcall(): every call into opfython goes through it; an exception inside is a LibError
  (-> violation), an exception anywhere else is a harness error (-> exit 2)
"""
import hashlib
import logging
import os
import sys
import traceback
import warnings

VERIF_DIR = os.path.dirname(os.path.dirname(os.path.dirname(os.path.abspath(__file__))))
REPO = os.path.abspath(os.environ.get("VERIF_REPO", "/repo"))
WORK = os.path.join(VERIF_DIR, ".work")


def tree_hash():
    h = hashlib.sha1()
    root = os.path.join(REPO, "opfython")
    for d, dirs, files in sorted(os.walk(root)):
        dirs.sort()
        if "__pycache__" in d:
            continue
        for f in sorted(files):
            if f.endswith(".py"):
                p = os.path.join(d, f)
                h.update(os.path.relpath(p, root).encode())
                with open(p, "rb") as fh:
                    h.update(hashlib.sha1(fh.read()).digest())
    h.update(sys.version.encode())
    return h.hexdigest()[:20]


def cache_dir():
    return os.path.join(WORK, "numba-cache", tree_hash())


_setup_done = False


def setup():
    """Import opfython from REPO; idempotent."""
    global _setup_done
    if _setup_done:
        return
    logging.disable(logging.CRITICAL)
    warnings.simplefilter("ignore")
    os.environ.setdefault("NUMBA_CACHE_DIR", cache_dir())
    os.makedirs(os.environ["NUMBA_CACHE_DIR"], exist_ok=True)
    if REPO in sys.path:
        sys.path.remove(REPO)
    sys.path.insert(0, REPO)
    import numpy as np

    np.seterr(all="ignore")
    import opfython  # noqa

    src = os.path.abspath(opfython.__file__)
    if not src.startswith(REPO + os.sep):
        raise RuntimeError("opfython imported from %s, expected under %s" % (src, REPO))
    _setup_done = True


class LibError(Exception):
    """An exception raised by the library on an in-domain call."""

    def __init__(self, exc, where):
        super().__init__("%s: %s @ %s" % (type(exc).__name__, exc, where))
        self.exc = exc
        self.where = where
        self.clause = "exception:%s@%s" % (type(exc).__name__, where)


def _innermost_frame(tb):
    """innermost frame inside the opfython package: module.function"""
    best = "?"
    for fr in traceback.extract_tb(tb):
        fn = fr.filename.replace("\\", "/")
        if "/opfython/" in fn:
            mod = fn.split("/opfython/")[-1][:-3].replace("/", ".")
            best = "%s.%s" % (mod, fr.name)
    return best


def libcall(fn, *args, **kwargs):
    try:
        return fn(*args, **kwargs)
    except (KeyboardInterrupt, SystemExit, MemoryError):
        raise
    except BaseException as exc:  # noqa
        raise LibError(exc, _innermost_frame(exc.__traceback__)) from exc


def libcall_expect(fn, expected_exc, *args, **kwargs):
    """Call that may legitimately raise `expected_exc` (the documented rejection).
    Returns (True, value) or (False, exception).  Any other exception is a LibError."""
    try:
        return True, fn(*args, **kwargs)
    except expected_exc as exc:
        return False, exc
    except (KeyboardInterrupt, SystemExit, MemoryError):
        raise
    except BaseException as exc:  # noqa
        raise LibError(exc, _innermost_frame(exc.__traceback__)) from exc
