"""Outcome of one generated case, and the committed known-findings file."""
import hashlib
import json
import os

from .lib import VERIF_DIR


class Outcome:
    __slots__ = ("status", "clause", "detail", "nontrivial", "classes", "known", "extra")

    def __init__(self, status, clause="", detail="", nontrivial=False, classes=(), known=None, extra=None):
        self.status = status  # ok | discard | violation
        self.clause = clause
        self.detail = detail
        self.nontrivial = bool(nontrivial)
        self.classes = list(classes)
        self.known = list(known or [])  # ids of known findings hit (and excluded) by this case
        self.extra = extra or {}

    @staticmethod
    def ok(nontrivial=False, classes=(), known=None, extra=None):
        return Outcome("ok", nontrivial=nontrivial, classes=classes, known=known, extra=extra)

    @staticmethod
    def discard(reason, classes=()):
        return Outcome("discard", clause=reason, classes=classes)

    @staticmethod
    def violation(clause, detail="", classes=()):
        return Outcome("violation", clause=clause, detail=str(detail)[:2000], classes=classes)

    def __repr__(self):
        return "Outcome(%s,%s,%s)" % (self.status, self.clause, self.detail[:200])


class Violation(Exception):
    """Raised by oracle helpers inside check_case; converted to Outcome.violation by the worker."""

    def __init__(self, clause, detail=""):
        super().__init__("%s: %s" % (clause, detail))
        self.clause = clause
        self.detail = str(detail)


def require(cond, clause, detail=""):
    if not cond:
        raise Violation(clause, detail() if callable(detail) else detail)


def case_hash(case):
    s = json.dumps(case, sort_keys=True, separators=(",", ":"), default=str)
    return int.from_bytes(hashlib.blake2b(s.encode(), digest_size=8).digest(), "big")


_known = None


def known_findings():
    global _known
    if _known is None:
        p = os.path.join(VERIF_DIR, "known_findings.json")
        if os.path.exists(p):
            with open(p) as fh:
                _known = json.load(fh)
        else:
            _known = {"findings": []}
    return _known


def is_known(fid):
    """True iff finding `fid` is listed with status 'known' (fixed entries suppress nothing)."""
    for f in known_findings().get("findings", []):
        if f.get("id") == fid and f.get("status") == "known":
            return True
    return False


def known_entry(fid):
    for f in known_findings().get("findings", []):
        if f.get("id") == fid:
            return f
    return None
