"""Reference models written from the property texts.  Nothing here imports opfython."""
import itertools

INF = float("inf")


# ------------------------------------------------------------------ optimum-path (minimax) forest
def minimax_costs(W, prototypes):
    """cost[q] = min over paths from any prototype of the largest arc weight; Bellman-Ford style fix point.
    W[p][q] is the weight of arc p -> q.  Exact: every cost is 0 or one of the weights."""
    n = len(W)
    cost = [INF] * n
    for p in prototypes:
        cost[p] = 0.0
    changed = True
    while changed:
        changed = False
        for p in range(n):
            cp = cost[p]
            if cp == INF:
                continue
            row = W[p]
            for q in range(n):
                if q != p:
                    c = cp if cp > row[q] else row[q]
                    if c < cost[q]:
                        cost[q] = c
                        changed = True
    return cost


def forest_errors(pred, cost, label_of_node, assigned, W, prototypes, nil=-1):
    """-> list of (clause, detail).  pred/cost/assigned are per-node lists as read from the model;
    label_of_node[i] = true label (only used for prototypes)."""
    n = len(pred)
    errs = []
    protos = set(prototypes)
    for i in range(n):
        seen = set()
        j = i
        while pred[j] != nil:
            if j in seen:
                errs.append(("forest:no_cycle", "predecessor links cycle from node %d" % i))
                break
            seen.add(j)
            j = pred[j]
            if not (0 <= j < n):
                errs.append(("forest:pred_in_range", "node %d: predecessor %r" % (i, j)))
                break
        else:
            if j not in protos:
                errs.append(("forest:reaches_prototype", "node %d ends in %d which is not a prototype" % (i, j)))
            elif assigned[i] != label_of_node[j]:
                errs.append(("forest:label_of_root", "node %d has label %r, its root prototype %d has true label %r" % (i, assigned[i], j, label_of_node[j])))
        if errs:
            return errs
        p = pred[i]
        if p != nil:
            exp = max(cost[p], W[p][i])
            if cost[i] != exp:
                errs.append(("forest:link_cost", "node %d: cost %r != max(cost(pred %d)=%r, d=%r)" % (i, cost[i], p, cost[p], W[p][i])))
                return errs
        else:
            if i not in protos:
                errs.append(("forest:reaches_prototype", "node %d has no predecessor and is not a prototype" % i))
                return errs
    return errs


# ------------------------------------------------------------------ minimum spanning trees
def _prufer_trees(n):
    """all labelled trees on n nodes as edge lists"""
    if n == 1:
        yield []
        return
    if n == 2:
        yield [(0, 1)]
        return
    for seq in itertools.product(range(n), repeat=n - 2):
        deg = [1] * n
        for v in seq:
            deg[v] += 1
        edges = []
        import heapq

        leaves = [i for i in range(n) if deg[i] == 1]
        heapq.heapify(leaves)
        for v in seq:
            leaf = heapq.heappop(leaves)
            edges.append((leaf, v) if leaf < v else (v, leaf))
            deg[v] -= 1
            if deg[v] == 1:
                heapq.heappush(leaves, v)
        a = heapq.heappop(leaves)
        b = heapq.heappop(leaves)
        edges.append((a, b) if a < b else (b, a))
        yield edges


_TREE_CACHE = {}


def all_trees(n):
    if n not in _TREE_CACHE:
        _TREE_CACHE[n] = list(_prufer_trees(n))
    return _TREE_CACHE[n]


def mst_prototype_sets(W, Y):
    """exact, n <= 7: the set of prototype sets induced by ALL minimum spanning trees (frozensets)"""
    n = len(W)
    best = None
    sets = set()
    for edges in all_trees(n):
        w = 0.0
        for a, b in edges:
            w += W[a][b]
        if best is None or w < best - 1e-9 * max(1.0, abs(best)):
            best = w
            sets = set()
        if abs(w - best) <= 1e-9 * max(1.0, abs(best)):
            s = set()
            for a, b in edges:
                if Y[a] != Y[b]:
                    s.add(a)
                    s.add(b)
            sets.add(frozenset(s))
    return sets, best


class _DSU:
    def __init__(self, n):
        self.p = list(range(n))

    def find(self, a):
        while self.p[a] != a:
            self.p[a] = self.p[self.p[a]]
            a = self.p[a]
        return a

    def union(self, a, b):
        a, b = self.find(a), self.find(b)
        if a == b:
            return False
        self.p[a] = b
        return True


def kruskal(W, key=None):
    """MST edges; `key(a, b)` is a secondary sort key among equal weights (matroid greedy with perturbed weights)"""
    n = len(W)
    edges = [(a, b) for a in range(n) for b in range(a + 1, n)]
    if key is None:
        edges.sort(key=lambda e: (W[e[0]][e[1]], e))
    else:
        edges.sort(key=lambda e: (W[e[0]][e[1]], key(e[0], e[1]), e))
    d = _DSU(n)
    out = []
    for a, b in edges:
        if d.union(a, b):
            out.append((a, b))
    return out


def prototypes_of_tree(edges, Y):
    s = set()
    for a, b in edges:
        if Y[a] != Y[b]:
            s.add(a)
            s.add(b)
    return s


def tie_free(W):
    n = len(W)
    vals = [W[a][b] for a in range(n) for b in range(a + 1, n)]
    return len(set(vals)) == len(vals)


def mst_necessary_conditions(W, Y, S):
    """sound necessary conditions for 'S is the prototype set of SOME MST' (used for n > 7 with ties).
    -> list of (clause, detail)"""
    n = len(W)
    errs = []
    S = set(S)
    # (i) there is an MST using no cross-class edge that touches a non-prototype:
    #     greedy with 'bad' edges last among ties minimises the number of bad edges (matroid exchange)
    def bad(a, b):
        return 1 if (Y[a] != Y[b] and (a not in S or b not in S)) else 0

    t = kruskal(W, key=bad)
    nbad = sum(bad(a, b) for a, b in t)
    if nbad:
        errs.append(("prototypes:missing", "every minimum spanning tree has a cross-class arc with an endpoint not flagged as prototype (e.g. %r)" % [e for e in t if bad(*e)][:3]))
    # (ii) every claimed prototype is an endpoint of a cross-class edge (to another prototype) of SOME MST:
    wt = sum(W[a][b] for a, b in t)
    for s in sorted(S):
        def pref(a, b, s=s):
            return 0 if (Y[a] != Y[b] and s in (a, b) and a in S and b in S) else 1

        t2 = kruskal(W, key=pref)
        if not any(pref(a, b) == 0 for a, b in t2):
            errs.append(("prototypes:spurious", "node %d is flagged prototype but no minimum spanning tree joins it to a prototype of another class" % s))
            break
    return errs


# ------------------------------------------------------------------ supervised prediction
def argmin_labels(costs, assigned, dist_to_query):
    """exhaustive rule: labels of all training samples minimising max(cost(t), d(t, x))"""
    vals = [c if c > d else d for c, d in zip(costs, dist_to_query)]
    m = min(vals)
    return {assigned[i] for i, v in enumerate(vals) if v == m}, m, vals
