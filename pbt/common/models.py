"""Driving the four opfython models from plain case data (all calls through libcall)."""
from . import lib
from .lib import libcall


def np():
    import numpy

    return numpy


def classes():
    lib.setup()
    from opfython.models.knn_supervised import KNNSupervisedOPF
    from opfython.models.semi_supervised import SemiSupervisedOPF
    from opfython.models.supervised import SupervisedOPF
    from opfython.models.unsupervised import UnsupervisedOPF

    return {"sup": SupervisedOPF, "semi": SemiSupervisedOPF, "knn": KNNSupervisedOPF, "unsup": UnsupervisedOPF}


def dist_fn(name):
    lib.setup()
    import opfython.math.distance as d

    return d.DISTANCES[name]


def eval_matrix(name, rows, cols=None):
    """W[i][j] = fn(rows[i].copy(), cols[j].copy()) evaluated from outside"""
    n_ = np()
    fn = dist_fn(name)
    cols = rows if cols is None else cols
    R = [n_.array(r, dtype=float) for r in rows]
    C = [n_.array(c, dtype=float) for c in cols]
    return [[float(libcall(fn, r.copy(), c.copy())) for c in C] for r in R]


def set_pre(model, W):
    """install a pre-computed matrix through the public setters (as the repository's own tests do)"""
    model.pre_computed_distance = True
    model.pre_distances = np().array(W, dtype=float)
    return model


def index_features(n, start=0):
    """dummy feature rows for pre-computed runs: the row id (never used for distances)"""
    return np().arange(start, start + n, dtype=float).reshape(n, 1)


def node_state(model):
    sg = model.subgraph
    st = {
        "cost": [float(nd.cost) for nd in sg.nodes],
        "pred": [int(nd.pred) for nd in sg.nodes],
        "status": [int(nd.status) for nd in sg.nodes],
        "label": [int(nd.label) for nd in sg.nodes],
        "predicted_label": [int(nd.predicted_label) for nd in sg.nodes],
        "idx": [int(nd.idx) for nd in sg.nodes],
        "root": [int(nd.root) for nd in sg.nodes],
        "cluster_label": [int(nd.cluster_label) for nd in sg.nodes],
        "density": [float(nd.density) for nd in sg.nodes],
        "radius": [float(nd.radius) for nd in sg.nodes],
        "relevant": [int(nd.relevant) for nd in sg.nodes],
        "idx_nodes": [int(i) for i in sg.idx_nodes],
        "trained": bool(sg.trained),
        "n_nodes": int(sg.n_nodes),
    }
    for k in ("best_k", "n_clusters", "constant", "density", "min_density", "max_density"):
        if hasattr(sg, k):
            v = getattr(sg, k)
            st["sg_" + k] = float(v) if isinstance(v, float) or "dens" in k or k == "constant" else int(v)
    return st


def premise_matrix(W, need_symmetric=True, need_tiefree=False, check_diag=True):
    """-> None if ok else reason string"""
    import math

    n = len(W)
    for i in range(n):
        for j in range(n):
            v = W[i][j]
            if i == j:  # self-distances are never used as arc weights by fit; rounding may make them -1e-16 (cosine)
                if check_diag and not math.isfinite(v):
                    return "not_finite_nonneg"
                continue
            if not math.isfinite(v) or v < 0 or v >= 1e300:
                return "not_finite_nonneg"
            if need_symmetric and W[j][i] != v:
                return "asymmetric_by_rounding"
    if need_tiefree:
        vals = [W[i][j] for i in range(n) for j in range(i + 1, n)]
        if len(set(vals)) != len(vals):
            return "ties"
    return None
