"""The metric table of DESIGN.md section 5: closed forms in 60-digit decimal arithmetic, domains, axioms.

Every closed form returns (value, A, mode):
  value  the published definition evaluated with `decimal` (prec 60) on the exact values of the floats
  A      the natural condition scale (sum of magnitudes of the summands / intermediate quantities)
  mode   how implementation and reference are compared:
           "direct"  |impl - value|
           "square"  |impl^2 - value^2|         (sqrt of a difference that cancels: chord, hellinger, matusita)
           "expneg"  |exp(-impl) - exp(-value)| (bhattacharyya)
           "expm1K"  |expm1(impl/K) - expm1(value/K)| (the two log_* variants)
tolerance:  1e-9*|ref| + 64*eps*(n+8)*A + 1e-300
None of this imports opfython.
"""
import decimal
import math
from decimal import Decimal as D

CTX = decimal.Context(prec=60, Emax=decimal.MAX_EMAX, Emin=decimal.MIN_EMIN)
EPS = 2.0 ** -52
K = D(100000)
ZERO = D(0)
ONE = D(1)
TWO = D(2)
HALF = D("0.5")


def _ln(v):
    return CTX.ln(v)


def _sqrt(v):
    return CTX.sqrt(v)


def _exp(v):
    return CTX.exp(v)


def _sum(seq):
    s = ZERO
    for v in seq:
        s = CTX.add(s, v)
    return s


def _abs(v):
    return abs(v)


def dec(vec):
    return [D(float(v)) for v in vec]


# ---- closed forms -------------------------------------------------------------------------------
def _sq(x, y):
    return [CTX.multiply(CTX.subtract(a, b), CTX.subtract(a, b)) for a, b in zip(x, y)]


def _ad(x, y):
    return [abs(CTX.subtract(a, b)) for a, b in zip(x, y)]


def _div(a, b):
    return CTX.divide(a, b)


def f_additive_symmetric(x, y):
    t = [_div(CTX.multiply(s, a + b), CTX.multiply(a, b)) for s, a, b in zip(_sq(x, y), x, y)]
    v = 2 * _sum(t)
    return v, 2 * _sum(map(abs, t)), "direct"


def f_average_euclidean(x, y):
    v = _sqrt(_div(_sum(_sq(x, y)), D(len(x))))
    return v, v, "direct"


def f_bhattacharyya(x, y):
    s = _sum(_sqrt(CTX.multiply(a, b)) for a, b in zip(x, y))
    return -_ln(s), s, "expneg"


def f_bray_curtis(x, y):
    v = _div(_sum(_ad(x, y)), _sum(a + b for a, b in zip(x, y)))
    return v, v, "direct"


def f_canberra(x, y):
    t = []
    for a, b in zip(x, y):
        den = abs(a) + abs(b)
        t.append(ZERO if den == 0 else _div(abs(a - b), den))
    v = _sum(t)
    return v, v, "direct"


def f_chebyshev(x, y):
    v = max(_ad(x, y))
    return v, v, "direct"


def f_chi_squared(x, y):
    v = HALF * _sum(_div(s, a + b) for s, a, b in zip(_sq(x, y), x, y))
    return v, v, "direct"


def _cos(x, y):
    nx = _sqrt(_sum(CTX.multiply(a, a) for a in x))
    ny = _sqrt(_sum(CTX.multiply(b, b) for b in y))
    return _div(_sum(CTX.multiply(a, b) for a, b in zip(x, y)), CTX.multiply(nx, ny))


def f_chord(x, y):
    r = 2 - 2 * _cos(x, y)
    if r < 0:
        r = ZERO
    return _sqrt(r), D(4), "square"


def f_clark(x, y):
    v = _sqrt(_sum(CTX.multiply(_div(a - b, a + b), _div(a - b, a + b)) for a, b in zip(x, y)))
    return v, v, "direct"


def f_cosine(x, y):
    return 1 - _cos(x, y), D(2), "direct"


def f_dice(x, y):
    r = _div(2 * _sum(CTX.multiply(a, b) for a, b in zip(x, y)), _sum(CTX.multiply(a, a) for a in x) + _sum(CTX.multiply(b, b) for b in y))
    return 1 - r, D(2), "direct"


def f_divergence(x, y):
    v = 2 * _sum(_div(s, CTX.multiply(a + b, a + b)) for s, a, b in zip(_sq(x, y), x, y))
    return v, v, "direct"


def f_euclidean(x, y):
    v = _sqrt(_sum(_sq(x, y)))
    return v, v, "direct"


def f_gaussian(x, y):
    d = _sqrt(_sum(_sq(x, y)))
    v = _exp(-d)
    return v, v * (1 + d), "direct"


def f_gower(x, y):
    v = _div(_sum(_ad(x, y)), D(len(x)))
    return v, v, "direct"


def f_hamming(x, y):
    v = D(sum(1 for a, b in zip(x, y) if a != b))
    return v, ZERO, "direct"


def f_hassanat(x, y):
    t = []
    for a, b in zip(x, y):
        mn, mx = min(a, b), max(a, b)
        if mn >= 0:
            t.append(1 - _div(1 + mn, 1 + mx))
        else:
            t.append(1 - _div(1 + mn + abs(mn), 1 + mx + abs(mn)))
    v = _sum(t)
    return v, v + D(len(x)), "direct"


def _sqrtdiff(x, y):
    return [CTX.multiply(_sqrt(a) - _sqrt(b), _sqrt(a) - _sqrt(b)) for a, b in zip(x, y)]


def _sqrtsum(x, y):
    return _sum(CTX.multiply(_sqrt(a) + _sqrt(b), _sqrt(a) + _sqrt(b)) for a, b in zip(x, y))


def f_hellinger(x, y):
    return _sqrt(2 * _sum(_sqrtdiff(x, y))), 2 * _sqrtsum(x, y), "square"


def f_jaccard(x, y):
    num = _sum(_sq(x, y))
    den = _sum(CTX.multiply(a, a) for a in x) + _sum(CTX.multiply(b, b) for b in y) - _sum(CTX.multiply(a, b) for a, b in zip(x, y))
    v = _div(num, den)
    return v, 3 * v + D(1), "direct"


def _mag(x, y):
    return _sum(abs(a) + abs(b) for a, b in zip(x, y))


def f_jeffreys(x, y):
    t = [CTX.multiply(a - b, _ln(_div(a, b))) for a, b in zip(x, y)]
    return _sum(t), _sum(map(abs, t)) + _sum(_ad(x, y)), "direct"


def f_jensen(x, y):
    t1 = [_div(CTX.multiply(a, _ln(a)) + CTX.multiply(b, _ln(b)), TWO) for a, b in zip(x, y)]
    t2 = [CTX.multiply(_div(a + b, TWO), _ln(_div(a + b, TWO))) for a, b in zip(x, y)]
    v = HALF * _sum(p - q for p, q in zip(t1, t2))
    A = HALF * (_sum(abs(CTX.multiply(a, _ln(a))) + abs(CTX.multiply(b, _ln(b))) for a, b in zip(x, y)) + _sum(map(abs, t2))) + _mag(x, y)
    return v, A, "direct"


def _t_log(x, y):
    t1 = [CTX.multiply(a, _ln(_div(2 * a, a + b))) for a, b in zip(x, y)]
    t2 = [CTX.multiply(b, _ln(_div(2 * b, a + b))) for a, b in zip(x, y)]
    return t1, t2


def f_jensen_shannon(x, y):
    t1, t2 = _t_log(x, y)
    return HALF * (_sum(t1) + _sum(t2)), HALF * (_sum(map(abs, t1)) + _sum(map(abs, t2))) + _mag(x, y), "direct"


def f_k_divergence(x, y):
    t1, _ = _t_log(x, y)
    return _sum(t1), _sum(map(abs, t1)) + _mag(x, y), "direct"


def f_kulczynski(x, y):
    v = _div(_sum(_ad(x, y)), _sum(min(a, b) for a, b in zip(x, y)))
    return v, v, "direct"


def f_kullback_leibler(x, y):
    t = [CTX.multiply(a, _ln(_div(a, b))) for a, b in zip(x, y)]
    return _sum(t), _sum(map(abs, t)) + _mag(x, y), "direct"


def f_log_euclidean(x, y):
    d = _sqrt(_sum(_sq(x, y)))
    return K * _ln(1 + d), 1 + d, "expm1K"


def f_log_squared_euclidean(x, y):
    d = _sum(_sq(x, y))
    return K * _ln(1 + d), 1 + d, "expm1K"


def f_lorentzian(x, y):
    v = _sum(_ln(1 + t) for t in _ad(x, y))
    return v, v + D(len(x)), "direct"  # 1 + |x-y| is rounded before the log: absolute error eps per coordinate


def f_manhattan(x, y):
    v = _sum(_ad(x, y))
    return v, v, "direct"


def f_matusita(x, y):
    return _sqrt(_sum(_sqrtdiff(x, y))), _sqrtsum(x, y), "square"


def _s1s2(x, y):
    s = _sq(x, y)
    return _sum(_div(q, a) for q, a in zip(s, x)), _sum(_div(q, b) for q, b in zip(s, y))


def f_max_symmetric(x, y):
    v = max(_s1s2(x, y))
    return v, v, "direct"


def f_mean_censored_euclidean(x, y):
    cnt = sum(1 for a, b in zip(x, y) if a + b != 0)
    v = _sqrt(_div(_sum(_sq(x, y)), D(cnt)))
    return v, v, "direct"


def f_min_symmetric(x, y):
    v = min(_s1s2(x, y))
    return v, v, "direct"


def f_neyman(x, y):
    v = _s1s2(x, y)[0]
    return v, v, "direct"


def f_non_intersection(x, y):
    v = HALF * _sum(_ad(x, y))
    return v, v, "direct"


def f_pearson(x, y):
    v = _s1s2(x, y)[1]
    return v, v, "direct"


def f_sangvi(x, y):
    v = 2 * _sum(_div(s, a + b) for s, a, b in zip(_sq(x, y), x, y))
    return v, v, "direct"


def f_soergel(x, y):
    v = _div(_sum(_ad(x, y)), _sum(max(a, b) for a, b in zip(x, y)))
    return v, v, "direct"


def f_squared(x, y):
    v = _sum(_div(s, a + b) for s, a, b in zip(_sq(x, y), x, y))
    return v, v, "direct"


def f_squared_chord(x, y):
    return _sum(_sqrtdiff(x, y)), _sqrtsum(x, y), "direct"


def f_squared_euclidean(x, y):
    v = _sum(_sq(x, y))
    return v, v, "direct"


def f_statistic(x, y):
    t = []
    for a, b in zip(x, y):
        m = _div(a + b, TWO)
        t.append(_div(a - m, m))
    return _sum(t), _sum(map(abs, t)) + D(len(x)), "direct"


def f_topsoe(x, y):
    t1, t2 = _t_log(x, y)
    return _sum(t1) + _sum(t2), _sum(map(abs, t1)) + _sum(map(abs, t2)) + _mag(x, y), "direct"


def f_vicis_symmetric1(x, y):
    v = _sum(_div(s, CTX.multiply(min(a, b), min(a, b))) for s, a, b in zip(_sq(x, y), x, y))
    return v, v, "direct"


def f_vicis_symmetric2(x, y):
    v = _sum(_div(s, min(a, b)) for s, a, b in zip(_sq(x, y), x, y))
    return v, v, "direct"


def f_vicis_symmetric3(x, y):
    v = _sum(_div(s, max(a, b)) for s, a, b in zip(_sq(x, y), x, y))
    return v, v, "direct"


def f_vicis_wave_hedges(x, y):
    v = _sum(_div(t, min(a, b)) for t, a, b in zip(_ad(x, y), x, y))
    return v, v, "direct"


# name: (closed form, C06 domain, C08 domain, symmetric, dissimilarity (nonneg & d(x,x)=0), triangle, eps-shifted by decorator)
_T = True
_F = False
TABLE = {
    "additive_symmetric": (f_additive_symmetric, "P", "NN0", _T, _T, _F, _T),
    "average_euclidean": (f_average_euclidean, "R", "R", _T, _T, _T, _F),
    "bhattacharyya": (f_bhattacharyya, "P", "PROB", _T, _T, _F, _T),
    "bray_curtis": (f_bray_curtis, "P", "NN0", _T, _T, _F, _T),
    "canberra": (f_canberra, "R", "R", _T, _T, _T, _T),
    "chebyshev": (f_chebyshev, "R", "R", _T, _T, _T, _F),
    "chi_squared": (f_chi_squared, "P", "NN0", _T, _T, _F, _T),
    "chord": (f_chord, "RNZ", "RNZ", _T, _T, _F, _T),
    "clark": (f_clark, "P", "NN0", _T, _T, _F, _T),
    "cosine": (f_cosine, "RNZ", "RNZ", _T, _T, _F, _T),
    "dice": (f_dice, "RNZ", "RNZ", _T, _T, _F, _T),
    "divergence": (f_divergence, "P", "NN0", _T, _T, _F, _T),
    "euclidean": (f_euclidean, "R", "R", _T, _T, _T, _F),
    "gaussian": (f_gaussian, "R", "R", _T, _F, _F, _F),
    "gower": (f_gower, "R", "R", _T, _T, _T, _F),
    "hamming": (f_hamming, "R", "R", _T, _T, _T, _F),
    "hassanat": (f_hassanat, "R", "R", _T, _T, _F, _T),
    "hellinger": (f_hellinger, "NN", "NN", _T, _T, _T, _F),
    "jaccard": (f_jaccard, "RNZ", "RNZ", _T, _T, _F, _T),
    "jeffreys": (f_jeffreys, "P", "NN0", _T, _T, _F, _T),
    "jensen": (f_jensen, "P", "NN0", _T, _T, _F, _T),
    "jensen_shannon": (f_jensen_shannon, "P", "NN0", _T, _T, _F, _T),
    "k_divergence": (f_k_divergence, "P", "PROB", _F, _T, _F, _T),
    "kulczynski": (f_kulczynski, "P", "NN0", _T, _T, _F, _T),
    "kullback_leibler": (f_kullback_leibler, "P", "PROB", _F, _T, _F, _T),
    "log_euclidean": (f_log_euclidean, "R", "R", _T, _T, _T, _F),
    "log_squared_euclidean": (f_log_squared_euclidean, "R", "R", _T, _T, _F, _F),
    "lorentzian": (f_lorentzian, "R", "R", _T, _T, _T, _F),
    "manhattan": (f_manhattan, "R", "R", _T, _T, _T, _F),
    "matusita": (f_matusita, "NN", "NN", _T, _T, _T, _F),
    "max_symmetric": (f_max_symmetric, "P", "NN0", _T, _T, _F, _T),
    "mean_censored_euclidean": (f_mean_censored_euclidean, "P", "NN0", _T, _T, _F, _T),
    "min_symmetric": (f_min_symmetric, "P", "NN0", _T, _T, _F, _T),
    "neyman": (f_neyman, "P", "NN0", _F, _T, _F, _T),
    "non_intersection": (f_non_intersection, "R", "R", _T, _T, _T, _F),
    "pearson": (f_pearson, "P", "NN0", _F, _T, _F, _T),
    "sangvi": (f_sangvi, "P", "NN0", _T, _T, _F, _T),
    "soergel": (f_soergel, "P", "NN0", _T, _T, _T, _T),
    "squared": (f_squared, "P", "NN0", _T, _T, _F, _T),
    "squared_chord": (f_squared_chord, "NN", "NN", _T, _T, _F, _F),
    "squared_euclidean": (f_squared_euclidean, "R", "R", _T, _T, _F, _F),
    "statistic": (f_statistic, "P", "NN0", _F, _F, _F, _T),
    "topsoe": (f_topsoe, "P", "NN0", _T, _T, _F, _T),
    "vicis_symmetric1": (f_vicis_symmetric1, "P", "NN0", _T, _T, _F, _T),
    "vicis_symmetric2": (f_vicis_symmetric2, "P", "NN0", _T, _T, _F, _T),
    "vicis_symmetric3": (f_vicis_symmetric3, "P", "NN0", _T, _T, _F, _T),
    "vicis_wave_hedges": (f_vicis_wave_hedges, "P", "NN0", _T, _T, _F, _T),
}
NAMES = sorted(TABLE)
assert len(NAMES) == 47


def closed_form(name):
    return TABLE[name][0]


def c06_domain(name):
    return TABLE[name][1]


def c08_domain(name):
    return TABLE[name][2]


def symmetric(name):
    return TABLE[name][3]


def dissimilarity(name):
    return TABLE[name][4]


def triangle(name):
    return TABLE[name][5]


def shifted(name):
    return TABLE[name][6]


TRIANGLE_NAMES = sorted(n for n in NAMES if triangle(n))
assert len(TRIANGLE_NAMES) == 13
# metrics usable as arc weights of the model properties: symmetric, non-negative, zero self distance
MODEL_METRICS = sorted(n for n in NAMES if symmetric(n) and dissimilarity(n))


def shift_inputs(name, vec):
    """what the decorated implementation evaluates its formula on (float arithmetic, as the library does)"""
    if shifted(name):
        return [float(v) + 1e-20 for v in vec]
    return [float(v) for v in vec]


def reference(name, x, y, shifted_inputs=False):
    """(value, A, mode) as Decimals for float vectors x, y"""
    if shifted_inputs:
        x, y = shift_inputs(name, x), shift_inputs(name, y)
    return closed_form(name)(dec(x), dec(y))


def tolerance(ref, A, n):
    return D(1e-9) * abs(ref) + D(64 * EPS * (n + 8)) * abs(A) + D("1e-300")


def _preimage(mode, v):
    """map a Decimal value to the comparison scale"""
    if mode == "direct":
        return v
    if mode == "square":
        return CTX.multiply(v, v)
    if mode == "expneg":
        return _exp(-v)
    if mode == "expm1K":
        return _exp(_div(v, K)) - 1
    raise ValueError(mode)


def compare(name, impl, x, y, shifted_inputs=False):
    """-> (ok, message).  impl is the float returned by the library."""
    impl = float(impl)
    if math.isnan(impl) or math.isinf(impl):
        return False, "implementation returned %r" % impl
    ref, A, mode = reference(name, x, y, shifted_inputs)
    n = len(x)
    pi = _preimage(mode, D(impl))
    pr = _preimage(mode, ref)
    tol = tolerance(pr, A, n)
    diff = abs(pi - pr)
    if diff <= tol:
        return True, ""
    return False, "%s: impl=%r closed form=%s (mode %s: |%s - %s| = %s > tol %s)" % (
        name, impl, _short(ref), mode, _short(pi), _short(pr), _short(diff), _short(tol))


def _short(d):
    return "%.17g" % float(d) if abs(d) < D("1e300") and (d == 0 or abs(d) > D("1e-300")) else str(d)[:30]


def scale_tolerance(name, x, y, shifted_inputs=True):
    """tolerance (float, on the comparison scale) and mode for axioms checked without a reference value"""
    ref, A, mode = reference(name, x, y, shifted_inputs)
    pr = _preimage(mode, ref)
    return tolerance(pr, A, len(x)), mode, ref


def direct_tolerance(name, x, y, shifted_inputs=True):
    """a (generous) bound, on the scale of the returned value itself, of |impl - exact| that rounding can explain"""
    ref, A, mode = reference(name, x, y, shifted_inputs)
    pr = _preimage(mode, ref)
    tol = tolerance(pr, A, len(x))
    if mode == "direct":
        t = tol
    elif mode == "square":
        t = _sqrt(tol) + D(1e-9) * abs(ref)
    elif mode == "expneg":
        t = _div(tol, pr) if pr > 0 else D("inf")
    elif mode == "expm1K":
        t = K * _div(tol, 1 + pr)
    return float(t), float(ref)
