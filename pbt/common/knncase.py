"""Shared case format, generators, driver and reference rules for the KNN-supervised / unsupervised properties
(C13, C14, C16, C04-KNN, C09).

case = {"model": "knn"|"unsup", "mode": "feat"|"pre", "nt", "nv" (knn), "nq", "Y" (train labels), "Yv" (validation labels, knn),
        "max_k", "min_k" (unsup), "X": train+validation+query points + "metric"   (feat)
        "W": matrix, + "Iv", "Iq" row ids                                          (pre)}
pre + knn: the library demands an n_train x n_train matrix, so validation / query samples can only be *rows of the training set*
(Iv, Iq < nt) -- the one layout the API can express.  pre + unsup: matrix over train+queries.
"""
import math

from hypothesis import strategies as st

from . import gen, lib, models
from . import metrics as M
from .lib import libcall

KNN_METRICS = sorted(n for n in M.NAMES if M.symmetric(n) and M.dissimilarity(n))


@st.composite
def knn_case(draw, nmax=10, kinds=("knn", "unsup"), nq=(0, 0), kmax_force=False, modes=("feat", "feat", "feat", "pre"), metrics=None, point_kinds=None, jitter=True, force_int=False):
    model = draw(st.sampled_from(list(kinds)))
    mode = draw(st.sampled_from(list(modes)))
    nt = draw(st.one_of(st.integers(2, min(nmax, 6)), st.integers(3, nmax), st.integers(min(7, nmax), nmax)))
    n_q = draw(st.integers(nq[0], nq[1]))
    hi_k = min(nt - 1, 5)
    if kmax_force and hi_k >= 2 and draw(st.integers(0, 4)) > 0:
        max_k = draw(st.integers(2, hi_k))
    else:
        max_k = draw(st.integers(1, hi_k))
    case = {"model": model, "mode": mode, "nt": nt, "nq": n_q, "max_k": max_k}
    if draw(st.booleans()):
        # the model object has a history before the fit that is checked, and helper calls between the fit and the prediction
        case["prelude"] = draw(st.lists(st.sampled_from(["fit_other", "fit_bigger_k", "predict_other", "get_distances", "via_load", "fit_other", "fit_scaled_then_predict", "stale_matrix"]), min_size=1, max_size=4))
        case["mid"] = draw(st.lists(st.sampled_from(["predict_first", "propagate_labels", "get_distances"]), min_size=0, max_size=2))
    if model == "knn":
        Y = draw(gen.labels(nt, 1, 3))
        K = max(Y) + 1
        case["Y"] = Y
        if mode == "pre":
            byc = {c: [i for i in range(nt) if Y[i] == c] for c in range(K)}
            Iv = [byc[c][draw(st.integers(0, len(byc[c]) - 1))] for c in range(K)]
            Iv += draw(st.lists(st.integers(0, nt - 1), min_size=0, max_size=4))
            case["Iv"] = Iv
            case["Yv"] = [Y[i] for i in Iv]
            case["nv"] = len(Iv)
            case["Iq"] = draw(st.lists(st.integers(0, nt - 1), min_size=n_q, max_size=n_q))
        else:
            nv = draw(st.integers(K, K + 4))
            case["nv"] = nv
            case["Yv"] = draw(gen.labels(nv, K, K))
    else:
        case["min_k"] = draw(st.integers(1, max_k))
        case["Y"] = draw(st.one_of(st.none(), gen.labels(nt, 1, 3)))
        case["nv"] = 0
    if mode == "pre":
        m = nt if model == "knn" else nt + n_q
        W, wm = draw(gen.weight_matrix(m))
        case["W"], case["wmode"] = W, wm
        if draw(st.integers(0, 2)) > 0:
            # node a uses row rows[a] of the library's matrix (W stays in node order)
            if model == "knn":
                case["rows"] = list(draw(st.permutations(list(range(nt)))))
            else:
                extra = draw(st.integers(0, 3))
                case["rows"] = list(draw(st.permutations(list(range(m + extra)))))[:m]
            case["fill"] = draw(st.sampled_from([0.0, 0.25, 7.25, 1e9]))
    else:
        name = draw(st.sampled_from(metrics or KNN_METRICS))
        kind = draw(st.sampled_from(point_kinds or gen.metric_point_kind(name)))
        dim = draw(st.integers(1, 3))
        m = nt + case["nv"] + n_q
        X = draw(gen.points(m, dim, kind))
        if jitter and not force_int and kind == "lattice" and draw(st.booleans()):
            # jittered lattice: nearly (but not exactly) tied distances and densities
            jit = draw(st.lists(st.lists(st.integers(-4, 4), min_size=dim, max_size=dim), min_size=m, max_size=m))
            jscale = draw(st.sampled_from([0.0078125, 0.0009765625, 0.0001220703125]))
            X = [[v + j_ * jscale for v, j_ in zip(p_, jr)] for p_, jr in zip(X, jit)]
            case["pkind_jitter"] = True
        dup = draw(st.integers(0, 3))
        if dup == 0 and nt >= 4:  # duplicates inside the training set (possibly with different labels)
            X[1] = list(X[0])
            if draw(st.booleans()):
                X[3] = list(X[2])
        for q in range(nt + case["nv"], m):  # queries: copies of training samples, far points, or as drawn
            r = draw(st.integers(0, 5))
            if r == 0:
                X[q] = list(X[draw(st.integers(0, nt - 1))])
            elif r == 1 and kind in ("generic", "positive", "nonneg0"):
                X[q] = [v + 500.0 for v in X[q]]
        if kind == "lattice" and not case.get("pkind_jitter") and (force_int or draw(st.booleans())):
            case["train_int"] = True  # integer-typed training matrix; validation / query rows real-valued
            for q in range(nt, m):
                if force_int or draw(st.booleans()):
                    X[q] = [v + draw(st.sampled_from([0.5, 0.9, 0.25])) for v in X[q]]
        case.update({"X": X, "metric": name, "pkind": kind})
    return case


class Run:
    pass


def run(case, predict=True, record_criterion=True, need_symmetric=True, allow_negative=False):
    np = models.np()
    lib.setup()
    import opfython.math.general as g

    nt, nv, nq = case["nt"], case.get("nv", 0), case["nq"]
    cls = models.classes()[case["model"]]
    r = Run()
    kw = {}
    if case["mode"] == "feat":
        kw["distance"] = case["metric"]
    if case["model"] == "knn":
        model = libcall(cls, max_k=case["max_k"], **kw)
    else:
        model = libcall(cls, min_k=case["min_k"], max_k=case["max_k"], **kw)
    if case["mode"] == "pre":
        Wm = case["W"]
        rows = case.get("rows") or list(range(len(Wm)))
        nrows = max(rows) + 1
        P = [[float(case.get("fill", 0.0))] * nrows for _ in range(nrows)]
        for a in range(len(Wm)):
            for b in range(len(Wm)):
                P[rows[a]][rows[b]] = Wm[a][b]
        models.set_pre(model, P)
        Xtr = models.index_features(nt)
        I_tr = np.array(rows[:nt], dtype=int)
        r.D = [row[:nt] for row in Wm[:nt]]
        if case["model"] == "knn":
            Iv, Iq = case["Iv"], case["Iq"]
            Xv = models.index_features(len(Iv))
            I_v = np.array([rows[i] for i in Iv], dtype=int)
            Xq = models.index_features(nq)
            I_q = np.array([rows[i] for i in Iq], dtype=int) if nq else np.zeros(0, dtype=int)
            r.DQ = [[Wm[Iq[q]][t] for t in range(nt)] for q in range(nq)]
            r.DV = [[Wm[Iv[v]][t] for t in range(nt)] for v in range(len(Iv))]
        else:
            Xq = models.index_features(nq, nt)
            I_q = np.array(rows[nt:nt + nq], dtype=int)
            r.DQ = [[Wm[nt + q][t] for t in range(nt)] for q in range(nq)]
            Xv = I_v = None
    else:
        name = case["metric"]
        X = [list(map(float, p)) for p in case["X"]]
        dim = len(X[0])
        Xtr = np.array(X[:nt], dtype=np.int64 if case.get("train_int") else float).reshape(nt, dim)
        Xv = np.array(X[nt:nt + nv], dtype=float).reshape(nv, dim)
        Xq = np.array(X[nt + nv:], dtype=float).reshape(nq, dim)
        I_tr = I_v = I_q = None
        r.D = models.eval_matrix(name, X[:nt])
        r.DQ = [[row[0] for row in models.eval_matrix(name, X[:nt], [X[nt + nv + q]])] for q in range(nq)]
        # queries are the FIRST argument in the KNN / unsupervised predict
        fn = models.dist_fn(name)
        r.DQ = [[float(libcall(fn, np.array(X[nt + nv + q], dtype=float), np.array(X[t], dtype=float))) for t in range(nt)] for q in range(nq)]
        r.DV = [[float(libcall(fn, np.array(X[nt + v], dtype=float), np.array(X[t], dtype=float))) for t in range(nt)] for v in range(nv)]
    for row in r.D + r.DQ:
        if not all(math.isfinite(v) and (v >= 0 or allow_negative) for v in row):
            return "not_finite_nonneg"
    for i in range(nt):
        for j in range(nt):
            if need_symmetric and r.D[i][j] != r.D[j][i]:
                return "asymmetric_by_rounding"
    Y = None if case.get("Y") is None else np.array(case["Y"], dtype=int)

    # ---- history on the same object before the fit that is checked
    import os
    import tempfile

    def _plain_fit(m, X_, Y_, I_):
        if case["model"] == "knn":
            libcall(m.fit, X_, Y_, Xv, np.array(case["Yv"], dtype=int), I_, I_v)
        else:
            libcall(m.fit, X_, Y_, I_)

    for op in case.get("prelude", []):
        trained = getattr(model, "subgraph", None) is not None and model.subgraph.trained
        if op == "fit_other":
            # the same samples with the labels in reverse order (same classes), i.e. another labelled set
            Yo = None if Y is None else Y[::-1].copy()
            _plain_fit(model, Xtr.copy(), Yo, I_tr)
        elif op == "fit_scaled_then_predict" and case["mode"] == "feat" and case.get("pkind") != "prob" and not case.get("train_int"):
            # an earlier fit on differently spread data (other density range, other constant), followed by a prediction
            Xs = Xtr.copy()
            Xs[: max(1, nt // 2)] *= 4.0
            _plain_fit(model, Xs, Y, I_tr)
            libcall(model.predict, Xs[:2].copy())
        elif op == "fit_bigger_k" and case["max_k"] + 1 <= nt - 1:
            # an earlier fit with a larger neighbourhood range, then the range is lowered through the public attributes
            model.max_k = case["max_k"] + 1
            _plain_fit(model, Xtr.copy(), Y, I_tr)
            model.max_k = case["max_k"]
        elif op == "predict_other" and trained:
            libcall(model.predict, Xtr[:2].copy(), None if I_tr is None else I_tr[:2].copy())
        elif op == "get_distances" and trained:
            libcall(model.get_distances)
        elif op == "stale_matrix" and case["mode"] == "feat":
            # a distance matrix from an earlier experiment stays attached while the documented switch pre_computed_distance is off
            ns = nt + nv + nq + 2
            S = np.array([[0.0 if a == b else float(((a * 7 + b * 13 + a * b) % 11) + 1) for b in range(ns)] for a in range(ns)])
            model.pre_computed_distance = True
            model.pre_distances = S
            model.pre_computed_distance = False
        elif op == "via_load":
            with tempfile.TemporaryDirectory(prefix="knncase-") as tmp:
                f = os.path.join(tmp, "m.pkl")
                libcall(model.save, f)
                model = libcall(cls)  # default constructor arguments
                libcall(model.load, f)
    r.criterion = []
    r.loop_density = []
    if case["model"] == "knn":
        Yv = np.array(case["Yv"], dtype=int)
        orig = g.opf_accuracy

        def wrapped(labels, preds):
            v = orig(labels, preds)
            r.criterion.append((int(model.subgraph.best_k), float(v), [int(a) for a in labels], [int(p) for p in preds]))
            r.loop_density.append(float(model.subgraph.density))
            return v

        g.opf_accuracy = wrapped
        try:
            libcall(model.fit, Xtr, Y, Xv, Yv, I_tr, I_v)
        finally:
            g.opf_accuracy = orig
    else:
        orig_cut = model._normalized_cut

        def wrapped_cut(k):
            v = orig_cut(k)
            # independent evaluation of the normalised cut from the live sub-graph (arcs = k nearest + plateau arcs of every node,
            # arc weight 1/d for d > 0, cut = sum over clusters of external / (internal + external))
            sg = model.subgraph
            inte, exte = {}, {}
            for i, nd in enumerate(sg.nodes):
                ci = int(nd.cluster_label)
                for j in list(nd.adjacency)[: int(nd.n_plateaus) + k]:
                    j = int(j)
                    d = r.D[i][j]
                    if d > 0.0:
                        if int(sg.nodes[j].cluster_label) == ci:
                            inte[ci] = inte.get(ci, 0.0) + 1.0 / d
                        else:
                            exte[ci] = exte.get(ci, 0.0) + 1.0 / d
            ref = 0.0
            for c_ in set(inte) | set(exte):
                tot = inte.get(c_, 0.0) + exte.get(c_, 0.0)
                if tot > 0.0:
                    ref += exte.get(c_, 0.0) / tot
            r.criterion.append((int(model.subgraph.best_k), float(v), int(k), ref))
            return v

        model._normalized_cut = wrapped_cut
        try:
            libcall(model.fit, Xtr, Y, I_tr)
        finally:
            del model._normalized_cut
    r.model = model
    r.fit_args = {"Xtr": Xtr, "Y": Y, "I_tr": I_tr, "Xv": Xv, "I_v": I_v}
    r.state = models.node_state(model)
    r.adj_len = [len(nd.adjacency) for nd in model.subgraph.nodes]
    r.n_plateaus = [int(nd.n_plateaus) for nd in model.subgraph.nodes]
    r.Xq, r.I_q = Xq, I_q
    r.preds = r.clusters = None
    if predict and nq:
        for op in case.get("mid", []):
            if op == "predict_first":
                libcall(model.predict, Xq[::-1].copy(), None if I_q is None else I_q[::-1].copy())
            elif op == "propagate_labels" and case["model"] == "unsup":
                libcall(model.propagate_labels)
            elif op == "get_distances":
                libcall(model.get_distances)
        r.state = models.node_state(model)  # labels may have been propagated: the prediction rule reads the CURRENT model
        out = libcall(model.predict, Xq, I_q)
        if case["model"] == "unsup":
            r.preds, r.clusters = [int(v) for v in out[0]], [int(v) for v in out[1]]
        else:
            r.preds = [int(v) for v in out]
    return r


def _exp(v):
    try:
        return math.exp(v)
    except OverflowError:
        return math.inf


# ------------------------------------------------------------------ reference rules
def kth_smallest_radius(D, k):
    """r_k(i) = k-th smallest distance from i to the other samples"""
    n = len(D)
    return [sorted(D[i][j] for j in range(n) if j != i)[k - 1] for i in range(n)]


def ref_pdf_from_distances(D, k, constant, divisor_plus_one=True):
    """pdf of every training sample from its k smallest distances (tie-independent: the multiset is determined)"""
    out = []
    n = len(D)
    for i in range(n):
        ds = sorted(D[i][j] for j in range(n) if j != i)[:k]
        s = sum(_exp(-d / constant) for d in ds)
        out.append(s / (k + 1 if divisor_plus_one else k))
    return out


def admissible_outputs(dq, costs, outputs, k, constant, dmin, dmax, max_density=1000, eps=1e-20):
    """Exhaustive k-nearest max-min rule for one query.
    dq[t] distance query->training sample t, costs[t], outputs[t] = what is returned if t wins (label or (label, cluster)).
    Returns (set of admissible outputs, info).  Accepts either divisor (k or k+1) for the query's density and, when the
    stored density range is 0, either normalisation convention; ties at the k-th distance and near-ties of computed values
    make every candidate maximiser admissible."""
    n = len(dq)
    order = sorted(range(n), key=lambda t: dq[t])
    ds = [dq[t] for t in order]
    dk = ds[k - 1]
    Mset = [t for t in range(n) if dq[t] < dk]
    Tset = [t for t in range(n) if dq[t] == dk]
    r = k - len(Mset)
    s = sum(_exp(-d / constant) for d in ds[:k])
    adm = set()
    info = {"tie_at_k": len(Tset) > r, "densities": []}
    if not math.isfinite(s):
        return None, info  # the kernel overflows (huge negative "distances"): outside the domain
    for div in (k, k + 1):
        raw = s / div
        cands = []
        if dmax - dmin == 0:
            cands.append(float(max_density))
            cands.append((max_density - 1) * (raw - dmin) / (dmax - dmin + eps) + 1)
        else:
            cands.append((max_density - 1) * (raw - dmin) / (dmax - dmin + eps) + 1)
        for dens in cands:
            info["densities"].append(dens)
            tol = 1e-9 * (1 + abs(dens)) + 999 * 1e-14 * abs(raw) / (dmax - dmin + 1e-300) if dmax > dmin else 1e-9 * (1 + abs(dens))
            val = {t: min(costs[t], dens) for t in Mset + Tset}
            maxM = max((val[t] for t in Mset), default=-math.inf)
            Tvals = sorted(val[t] for t in Tset)
            for t in Mset:
                lowest = max(Tvals[:r]) if r > 0 else -math.inf
                if val[t] >= maxM - tol and val[t] >= lowest - tol:
                    adm.add(outputs[t])
            if r >= 1:
                for t in Tset:
                    rest = sorted(val[u] for u in Tset if u != t)[: r - 1]
                    lowest = max(rest) if rest else -math.inf
                    if val[t] >= maxM - tol and val[t] >= lowest - tol:
                        adm.add(outputs[t])
    info["k_nearest"] = Mset + Tset
    return adm, info
