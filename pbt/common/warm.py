"""JIT warm-up: compile a disjoint subset of the registry into the tree-keyed numba cache."""
import sys

from . import lib


def main(i, n):
    lib.setup()
    import numpy as np
    import opfython.math.distance as d

    x = np.array([1.0, 2.0, 3.0])
    y = np.array([2.0, 3.0, 5.0])
    for k, name in enumerate(sorted(d.DISTANCES)):
        if k % n == i:
            try:
                d.DISTANCES[name](x.copy(), y.copy())
            except Exception:
                pass


if __name__ == "__main__":
    main(int(sys.argv[1]), int(sys.argv[2]))
