"""Shared case format, generators and driver for the supervised / semi-supervised properties (C01, C02, C03, C15, C04, C11).

case = {"model": "sup"|"semi", "mode": "pre"|"feat", "nt": n_train, "nu": n_unlabeled, "nq": n_query, "Y": train labels,
        "W": full symmetric (nt+nu+nq)^2 matrix            (mode pre;  rows: train, unlabeled, queries -- the layout the API can express)
        "X": (nt+nu+nq) points, "metric": identifier        (mode feat)}
"""
import itertools

from hypothesis import strategies as st

from . import gen, lib, models
from . import metrics as M
from .lib import libcall


@st.composite
def sup_case(draw, nmax=10, kinds=("sup",), nq=(0, 0), nu=(0, 0), modes=("pre", "pre", "feat"), nmin=2, metrics=None, kmax=4, wmode=None, big_labels=True):
    model = draw(st.sampled_from(list(kinds)))
    mode = draw(st.sampled_from(list(modes)))
    nt = draw(st.one_of(st.integers(nmin, max(nmin, min(nmax, 6))), st.integers(nmin, nmax))) if nmin < 20 else draw(st.integers(nmin, nmax))
    n_u = draw(st.integers(nu[0], nu[1])) if model == "semi" else 0
    n_q = draw(st.integers(nq[0], nq[1]))
    Y = draw(gen.labels(nt, 2, kmax))
    if big_labels and draw(st.integers(0, 4)) == 0:
        # class identifiers are arbitrary non-negative integers: also large ones (outside CPython's small-int cache)
        ids = draw(st.lists(st.integers(257, 100000), min_size=kmax, max_size=kmax, unique=True))
        Y = [ids[y] for y in Y]
    m = nt + n_u + n_q
    case = {"model": model, "mode": mode, "nt": nt, "nu": n_u, "nq": n_q, "Y": Y}
    if draw(st.integers(0, 2)) == 0:
        # the model object has a HISTORY before the fit that is checked: earlier fits on other data, predictions, helper calls,
        # a save/load round trip into a default-constructed object; and helper calls between the fit and the prediction
        case["prelude"] = draw(st.lists(st.sampled_from(["fit_other", "predict_other", "get_distances", "via_load", "fit_other", "stale_matrix"]), min_size=1, max_size=4))
        case["mid"] = draw(st.lists(st.sampled_from(["get_distances", "predict_other"]), min_size=0, max_size=2))
    if mode == "pre":
        W, wm = draw(gen.weight_matrix(m, mode=wmode))
        case["W"] = W
        case["wmode"] = wm
        if draw(st.integers(0, 3)) == 0:
            # with pre-computed distances the feature rows are placeholders: all of them identical here
            case["zero_feats"] = True
        if draw(st.integers(0, 2)) > 0:
            # node a uses row rows[a] of the library's matrix: train / query rows in arbitrary order inside a bigger matrix;
            # unlabeled samples must sit at rows nt..nt+nu-1 (the only layout the semi-supervised API can express)
            extra = draw(st.integers(0, 3))
            n_rows = m + extra
            fixed = list(range(nt, nt + n_u))
            free = [r_ for r_ in range(n_rows) if r_ not in fixed]
            perm = list(draw(st.permutations(free)))
            case["rows"] = perm[:nt] + fixed + perm[nt:nt + n_q]
            case["fill"] = draw(st.sampled_from([0.0, 0.25, 7.25, 1e9]))
    else:
        name = draw(st.sampled_from(metrics or M.MODEL_METRICS))
        kind = draw(st.sampled_from(gen.metric_point_kind(name)))
        dim = draw(st.integers(1, 4))
        X = draw(gen.points(m, dim, kind))
        if n_q and draw(st.booleans()):
            # make some queries exact copies of training samples (weight 0 arcs)
            for q in range(nt + n_u, m):
                if draw(st.integers(0, 2)) == 0:
                    X[q] = list(X[draw(st.integers(0, nt - 1))])
        if kind == "lattice" and draw(st.booleans()):
            # integer-typed training matrix (counts / pixel values); unlabeled and query rows stay real-valued
            case["train_int"] = True
            for q in range(nt, m):
                if draw(st.booleans()):
                    X[q] = [v + draw(st.sampled_from([0.5, 0.9, 0.25])) for v in X[q]]
        case["X"] = X
        case["metric"] = name
        case["pkind"] = kind
        if draw(st.integers(0, 5)) == 0:
            # default-constructed object, the metric installed afterwards through the public distance_fn setter
            case["ctor"] = "fn_setter"
        if draw(st.integers(0, 3)) == 0:
            # identifiers given by the caller although distances come from the features (they must not influence anything);
            # they may coincide with the positions the semi-supervised model gives to unlabeled samples
            # (repeated identifiers included: a bootstrap sample)
            case["I_feat"] = draw(st.lists(st.integers(0, nt + n_u + 3), min_size=nt, max_size=nt))
    return case


def enumerate_pre_cases(n, levels, nq=0, model="sup", nu=0, kmax=3):
    """all symmetric matrices over `levels` on n = nt+nu+nq nodes x all labelings of the nt training nodes with 2..kmax classes all present"""
    nt = n - nq - nu
    pairs = list(itertools.combinations(range(n), 2))
    labelings = []
    for K in range(2, kmax + 1):
        for lab in itertools.product(range(K), repeat=nt):
            if set(lab) == set(range(K)):
                labelings.append(list(lab))
    for vals in itertools.product(levels, repeat=len(pairs)):
        W = [[0.0] * n for _ in range(n)]
        for (i, j), v in zip(pairs, vals):
            W[i][j] = W[j][i] = float(v)
        for lab in labelings:
            yield {"model": model, "mode": "pre", "nt": nt, "nu": nu, "nq": nq, "Y": lab, "W": W, "wmode": "enum"}


class Run:
    """result of driving one case through the library"""

    pass


def run(case, predict=True, check_diag=True, need_symmetric=True):
    """fits (and predicts); returns Run with: model, W (train+unl square, evaluated from outside), DQ[q][t] = d(t, x_q), state, preds
    or a string = discard reason (premise of the property not met by the evaluated matrix)."""
    np = models.np()
    nt, nu, nq = case["nt"], case["nu"], case["nq"]
    ntr = nt + nu
    Y = np.array(case["Y"], dtype=int)
    cls = models.classes()[case["model"]]
    r = Run()
    if case["mode"] == "pre":
        Wfull = case["W"]
        model = libcall(cls)
        rows = case.get("rows") or list(range(ntr + nq))
        M = max(rows) + 1 if rows else 0
        P = [[float(case.get("fill", 0.0))] * M for _ in range(M)]
        for a in range(ntr + nq):
            for b in range(ntr + nq):
                P[rows[a]][rows[b]] = Wfull[a][b]
        models.set_pre(model, P)
        Xtr = models.index_features(nt)
        Xun = models.index_features(nu, nt)
        Xq = models.index_features(nq, ntr)
        if case.get("zero_feats"):
            Xtr, Xun, Xq = Xtr * 0.0, Xun * 0.0, Xq * 0.0
        r.W = [row[:ntr] for row in Wfull[:ntr]]
        r.DQ = [[Wfull[t][ntr + q] for t in range(ntr)] for q in range(nq)]
        I_tr = np.array(rows[:nt], dtype=int)
        I_q = np.array(rows[ntr:], dtype=int)
    else:
        name = case["metric"]
        X = [list(map(float, p)) for p in case["X"]]
        if case.get("ctor") == "fn_setter":
            model = libcall(cls)
            model.distance_fn = models.dist_fn(name)
        else:
            model = libcall(cls, distance=name)
        Xtr = np.array(X[:nt], dtype=np.int64 if case.get("train_int") else float).reshape(nt, -1)
        Xun = np.array(X[nt:ntr], dtype=float).reshape(nu, len(X[0]))
        Xq = np.array(X[ntr:], dtype=float).reshape(nq, len(X[0]))
        r.W = models.eval_matrix(name, X[:ntr])
        r.DQ = [[row[0] for row in models.eval_matrix(name, X[:ntr], [X[ntr + q]])] for q in range(nq)]
        I_tr = None if case.get("I_feat") is None else np.array(case["I_feat"], dtype=int)
        I_q = None
    why = models.premise_matrix(r.W, check_diag=check_diag, need_symmetric=need_symmetric)
    if why is None and nq:
        import math

        if not all(math.isfinite(v) and v >= 0 for row in r.DQ for v in row):
            why = "query_distance_not_finite_nonneg"
    if why:
        return why
    r.inputs = [Xtr.copy(), Y.copy(), Xun.copy(), Xq.copy()]

    def _fit(m, X_, Y_, I_, U_=None):
        if case["model"] == "semi":
            libcall(m.fit, X_, Y_, Xun if U_ is None else U_, I_)
        else:
            libcall(m.fit, X_, Y_, I_)

    def _other_data():
        # the same rows in reverse order with the labels kept in place: another labelled set of the same size and classes
        Xo = Xtr[::-1].copy()
        Io = None if I_tr is None else I_tr[::-1].copy()
        return Xo, Y.copy(), Io

    import os
    import tempfile

    for op in case.get("prelude", []):
        trained = getattr(model, "subgraph", None) is not None and model.subgraph.trained
        if op == "fit_other":
            Xo, Yo, Io = _other_data()
            # (semi-supervised, feature mode, empty unlabeled set in the case: the EARLIER fit has a non-empty one)
            U_ = Xtr[:2].copy() if (case["model"] == "semi" and nu == 0 and case["mode"] == "feat") else None
            _fit(model, Xo, Yo, Io, U_)
        elif op == "predict_other" and trained:
            libcall(model.predict, Xtr[:2].copy(), None if I_tr is None else I_tr[:2].copy())
        elif op == "get_distances" and trained:
            libcall(model.get_distances)
        elif op == "stale_matrix" and case["mode"] == "feat":
            # a distance matrix from an earlier experiment stays attached while the documented switch pre_computed_distance is off
            ns = ntr + nq + 8
            S = np.array([[0.0 if a == b else float(((a * 7 + b * 13 + a * b) % 11) + 1) for b in range(ns)] for a in range(ns)])
            model.pre_computed_distance = True
            model.pre_distances = S
            model.pre_computed_distance = False
        elif op == "via_load":
            # save the (possibly fitted) model and continue with a DEFAULT-constructed object that loaded the file
            with tempfile.TemporaryDirectory(prefix="supcase-") as tmp:
                f = os.path.join(tmp, "m.pkl")
                libcall(model.save, f)
                model = libcall(cls)
                libcall(model.load, f)
    _fit(model, Xtr, Y, I_tr)
    r.model = model
    r.state = models.node_state(model)
    r.preds = None
    if predict and nq:
        for op in case.get("mid", []):
            if op == "get_distances":
                libcall(model.get_distances)
            elif op == "predict_other":
                libcall(model.predict, Xtr[::-1].copy(), None if I_tr is None else I_tr[::-1].copy())
        r.preds = [int(v) for v in libcall(model.predict, Xq, I_q)]
    r.Xq, r.I_q = Xq, I_q
    r.Xtr, r.I_tr = Xtr, I_tr
    return r
