"""Shared Hypothesis strategies.  Everything produced is plain JSON-able data (lists of floats/ints/strings)."""
import itertools
from fractions import Fraction

from hypothesis import strategies as st

from . import metrics as M

# ---------------------------------------------------------------------------- scalars / vectors
MAG = st.one_of(
    st.floats(1e-3, 1.0, allow_nan=False),
    st.floats(1.0, 1e3, allow_nan=False),
    st.floats(1e3, 1e6, allow_nan=False),
    st.integers(1, 9).map(float),
    st.integers(1, 1000).map(lambda k: k / 8.0),
)
MAG_SMALL = st.one_of(st.floats(1e-3, 1e3, allow_nan=False), st.integers(1, 9).map(float), st.integers(1, 64).map(lambda k: k / 8.0))


def elem(domain, mag=MAG):
    if domain in ("R", "RNZ"):
        return st.one_of(st.just(0.0), mag, mag.map(lambda v: -v), mag)
    if domain in ("NN", "NN0", "PROB"):
        return st.one_of(st.just(0.0), mag, mag, mag)
    if domain == "P":
        return mag
    raise ValueError(domain)


def _fix_domain(domain, v, filler):
    v = list(v)
    if domain == "RNZ" and all(abs(a) < 1e-3 for a in v):
        v[0] = filler
    if domain == "PROB":
        if all(a == 0 for a in v):
            v[0] = filler
        s = sum(v)
        v = [a / s for a in v]
    return v


@st.composite
def vector(draw, domain, n, mag=MAG):
    v = draw(st.lists(elem(domain, mag), min_size=n, max_size=n))
    return _fix_domain(domain, v, draw(mag))


@st.composite
def vector_pair(draw, domain, nmax=64, mag=MAG, nmin=1, allow_huge=True):
    """(x, y, kind) with the relationship classes the quantifiers ask for"""
    n = draw(st.one_of(st.integers(nmin, min(8, nmax)), st.integers(nmin, nmax)))
    kind = draw(st.sampled_from(["indep", "indep", "indep", "onecoord", "proportional", "identical", "near", "long_large", "sparse", "very_long", "huge"]))
    if kind == "very_long" and nmax >= 56:
        # lengths far beyond anything a unit test uses (block-wise / chunked code paths)
        n = draw(st.sampled_from([65, 100, 128, 255, 256, 257, 511, 512, 513, 600, 1000, 1025]))
        small = st.one_of(st.floats(0.5, 4.0, allow_nan=False), st.integers(1, 8).map(float))
        x = draw(st.lists(small, min_size=n, max_size=n))
        how = draw(st.sampled_from(["indep", "near_offset", "tail"]))
        if how == "indep":
            y = draw(st.lists(small, min_size=n, max_size=n))
        elif how == "near_offset":
            # a large common offset with a small separation (cancellation-prone for expanded formulas)
            off = draw(st.sampled_from([1000.0, 100000.0]))
            x = [v + off for v in x]
            y = [v + draw(st.sampled_from([0.0078125, 0.015625, 0.5])) for v in x]
        else:
            # equal except in the first few coordinates: whatever is summed last must not be all that counts
            y = list(x)
            for i_ in range(draw(st.integers(1, 5))):
                y[i_] = x[i_] + draw(st.sampled_from([1.0, 2.5, 7.0]))
        if domain in ("R", "RNZ") and draw(st.booleans()):
            x, y = [-v for v in x], [-v for v in y]
        return _fix_domain(domain, x, 1.0), _fix_domain(domain, y, 1.0), kind
    if kind == "huge" and nmax >= 56 and allow_huge:
        # very large magnitudes (1e90..1e100): every closed form is still far from overflow, careless products are not
        n = draw(st.integers(nmin, 8))
        hm = st.floats(1e90, 1e100, allow_nan=False)
        x = draw(st.lists(hm, min_size=n, max_size=n))
        y = draw(st.lists(hm, min_size=n, max_size=n))
        if domain in ("R", "RNZ"):
            sg = draw(st.lists(st.sampled_from([1.0, 1.0, -1.0]), min_size=n, max_size=n))
            y = [v * s_ for v, s_ in zip(y, sg)]
        return _fix_domain(domain, x, 1e95), _fix_domain(domain, y, 1e95), kind
    if kind in ("very_long", "huge"):
        kind = "indep"
    if kind == "sparse" and domain in ("R", "NN", "NN0"):
        # sparse / count data: most coordinates exactly zero, shared zero coordinates between the vectors
        n = draw(st.integers(max(nmin, 2), min(nmax, 12)))
        e = st.one_of(st.just(0.0), st.just(0.0), st.just(0.0), elem(domain, mag))
        x = draw(st.lists(e, min_size=n, max_size=n))
        y = draw(st.lists(st.one_of(e, elem(domain, mag)), min_size=n, max_size=n))
        return x, y, kind
    if kind == "sparse":
        kind = "indep"
    if kind == "long_large" and nmax >= 56:
        # long vectors whose entries are all at the top of the magnitude range: sums / products of ~64 large terms
        n = draw(st.integers(56, nmax))
        big = st.floats(5e5, 1e6, allow_nan=False)
        x = draw(st.lists(big, min_size=n, max_size=n))
        y = draw(st.lists(big, min_size=n, max_size=n))
        if domain in ("R", "RNZ"):
            y = [-v for v in y]  # opposite signs: every |x_i - y_i| is above 1e6
        return _fix_domain(domain, x, 1.0), _fix_domain(domain, y, 1.0), kind
    if kind == "long_large":
        kind = "indep"
    x = draw(vector(domain, n, mag))
    if kind == "indep":
        y = draw(vector(domain, n, mag))
    elif kind == "identical":
        y = list(x)
    elif kind == "proportional":
        f = draw(st.sampled_from([2.0, 0.5, 3.0]))
        y = _fix_domain(domain, [a * f for a in x], 1.0)
        if domain == "PROB":
            kind = "identical_after_normalisation"
    elif kind == "onecoord":
        y = list(x)
        i = draw(st.integers(0, n - 1))
        y[i] = draw(elem(domain, mag))
        y = _fix_domain(domain, y, draw(mag))
    else:  # near: one ulp-ish apart in one coordinate
        import math

        y = list(x)
        i = draw(st.integers(0, n - 1))
        if y[i] != 0:  # exact zeros stay (|v| in {0} U [1e-3, 1e6] is the domain)
            y[i] = math.nextafter(y[i], math.inf if y[i] < 9e5 else -math.inf)
        y = _fix_domain(domain, y, draw(mag))
    return x, y, kind


# ---------------------------------------------------------------------------- labels
@st.composite
def labels(draw, n, kmin=2, kmax=4):
    """every class 0..K-1 present (construction, not rejection); requires n >= kmin"""
    K = draw(st.integers(kmin, max(kmin, min(kmax, n))))
    rest = draw(st.lists(st.integers(0, K - 1), min_size=n - K, max_size=n - K))
    lab = list(range(K)) + rest
    perm = draw(st.permutations(list(range(n))))
    return [lab[i] for i in perm]


# ---------------------------------------------------------------------------- weight matrices
@st.composite
def weight_matrix(draw, n, allow_zero=True, mode=None):
    """symmetric n x n, zero diagonal; heavy ties (1..4 levels) or tie-free"""
    npairs = n * (n - 1) // 2
    mode = mode or draw(st.sampled_from(["lv1", "lv2", "lv2", "lv3", "lv3", "lv4", "tiefree", "tiefree", "float", "neartie"]))
    if mode.startswith("lv"):
        m = int(mode[2:])
        pool = [0.0, 0.5, 1.0, 2.0, 3.0, 5.0, 8.0] if allow_zero else [0.5, 1.0, 2.0, 3.0, 5.0, 8.0]
        levels = draw(st.lists(st.sampled_from(pool), min_size=m, max_size=m, unique=True))
        idx = draw(st.lists(st.integers(0, m - 1), min_size=npairs, max_size=npairs))
        vals = [levels[i] for i in idx]
    elif mode == "tiefree":
        perm = draw(st.permutations(list(range(npairs))))
        vals = [float(p + 1) for p in perm]
    elif mode == "neartie":
        # all distinct, but within a relative 1e-7..1e-5 of one of two base levels: exposes "approximately equal" comparisons
        perm = draw(st.permutations(list(range(npairs))))
        step = draw(st.sampled_from([1e-7, 1e-6, 3e-6]))
        bases = draw(st.lists(st.sampled_from([0.5, 1.0, 3.0, 1000.0]), min_size=1, max_size=2, unique=True))
        pick = draw(st.lists(st.integers(0, len(bases) - 1), min_size=npairs, max_size=npairs))
        vals = [bases[b] * (1.0 + (p + 1) * step) for p, b in zip(perm, pick)]
    else:
        # sub-normal weights (1/d overflows) are outside any realistic distance domain: 0 or [1e-6, 1e6]
        fl = st.floats(1e-6, 1e6, allow_nan=False)
        vals = draw(st.lists(st.one_of(st.just(0.0), fl, fl, fl) if allow_zero else fl, min_size=npairs, max_size=npairs))
    W = [[0.0] * n for _ in range(n)]
    for (i, j), v in zip(itertools.combinations(range(n), 2), vals):
        W[i][j] = W[j][i] = float(v)
    return W, mode


# ---------------------------------------------------------------------------- point sets
def _dyadic(bits=10, lo=-1024 * 64, hi=1024 * 64):
    return st.integers(lo, hi).map(lambda k: k / float(1 << bits))


@st.composite
def points(draw, n, dim, kind):
    """n points of dimension dim as list of lists"""
    if kind == "generic":  # dyadic rationals, signs, zeros
        e = st.one_of(st.just(0.0), _dyadic(), st.integers(-8, 8).map(float))
    elif kind == "lattice":
        e = st.integers(0, 3).map(float)
    elif kind == "positive":
        e = st.one_of(st.floats(1e-3, 1e3, allow_nan=False), st.integers(1, 16).map(lambda k: k / 4.0))
    elif kind == "nonneg0":
        e = st.one_of(st.just(0.0), st.floats(1e-3, 1e3, allow_nan=False), st.integers(1, 16).map(lambda k: k / 4.0), st.integers(1, 16).map(lambda k: k / 4.0))
    elif kind == "prob":
        e = st.one_of(st.just(0.0), st.integers(1, 16).map(float), st.integers(1, 16).map(float))
    else:
        raise ValueError(kind)
    pts = draw(st.lists(st.lists(e, min_size=dim, max_size=dim), min_size=n, max_size=n))
    if kind == "prob":
        out = []
        for p in pts:
            if all(v == 0 for v in p):
                p = [1.0] + p[1:]
            s = sum(p)
            out.append([v / s for v in p])
        pts = out
    return pts


def _sqd_int(p, q):
    return sum((a - b) * (a - b) for a, b in zip(p, q))


@st.composite
def tiefree_points(draw, n, dim, coord_bits=6):
    """n points with integer coordinates (scaled by 2^-3 later) whose pairwise squared distances are ALL distinct
    (greedy construction; exact integer arithmetic).  Returns list of lists of floats."""
    pts = []
    used = set()
    tries = 0
    lim = 1 << coord_bits
    while len(pts) < n:
        cand = draw(st.lists(st.integers(-lim, lim), min_size=dim, max_size=dim))
        tries += 1
        ds = [_sqd_int(cand, p) for p in pts]
        if all(d > 0 for d in ds) and len(set(ds)) == len(ds) and not (set(ds) & used):
            pts.append(cand)
            used.update(ds)
        elif tries > 40 * n:
            # deterministic fallback (reached by degenerate / shrunk draws): a Golomb-like ruler 2^i - 1 on axis 0 -
            # all pairwise differences, hence all squared distances, are distinct and exactly representable
            pts = [[(1 << i) - 1] + [0] * (dim - 1) for i in range(n)]
            break
    return [[c / 8.0 for c in p] for p in pts]


def metric_point_kind(name):
    """point kinds (for the model properties) inside the metric's domain"""
    dom = M.c08_domain(name)
    if dom in ("R",):
        return ["generic", "lattice", "positive"]
    if dom == "RNZ":
        return ["positive"]
    if dom == "NN":
        return ["nonneg0", "positive", "lattice"]
    if dom == "NN0":
        return ["positive", "nonneg0"]
    if dom == "PROB":
        return ["prob"]
    raise ValueError(dom)
