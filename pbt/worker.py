"""One shard of one check = one fresh python process.

usage: python -m pbt.worker <ID> <tier> <seed> <shard> <nshards> <out.json>

Order inside a shard: (1) regression replay (shard 0 only), (2) slice of the bounded-exhaustive
enumeration if the property module has one, (3) Hypothesis (@given or stateful machine) with
seed VERIF_SEED*1000+shard, (4) optional extra engine (e.g. atheris) run by the module.
Writes counters / samples / first (shrunk) violation to out.json.  Exit 0 always unless the harness
itself failed (exit 2).
"""
import glob
import importlib
import json
import os
import sys
import time
import traceback

from .common import lib
from .common.outcome import Outcome, Violation, case_hash


class PropertyViolation(Exception):
    pass


class Recorder:
    def __init__(self, mod, wall_budget):
        self.mod = mod
        self.t0 = time.time()
        self.wall_budget = wall_budget
        self.evaluations = 0
        self.nontrivial = set()
        self.classes = {}
        self.discards = {}
        self.known_hits = {}
        self.known_samples = {}
        self.samples = []
        self.nt_samples = []
        self.violation = None  # (case, outcome) -- last one recorded is the shrunk one
        self.first_violation = None
        self.engines = {}
        self.skipped_budget = 0
        self.extra = {}

    def over_budget(self):
        return (time.time() - self.t0) > self.wall_budget

    def record(self, case, out, engine="hypothesis"):
        self.evaluations += 1
        self.engines[engine] = self.engines.get(engine, 0) + 1
        for c in out.classes:
            self.classes[c] = self.classes.get(c, 0) + 1
        if out.status == "discard":
            self.discards[out.clause] = self.discards.get(out.clause, 0) + 1
            return
        for k in out.known:
            self.known_hits[k] = self.known_hits.get(k, 0) + 1
            self.known_samples.setdefault(k, case)
        if out.status == "violation":
            if self.first_violation is None:
                self.first_violation = (case, out)
            self.violation = (case, out)
            return
        if out.nontrivial:
            h = case_hash(case)
            if h not in self.nontrivial:
                self.nontrivial.add(h)
                if len(self.nt_samples) < 3:
                    self.nt_samples.append(case)
        elif len(self.samples) < 2:
            self.samples.append(case)

    def dump(self, path, status, error=None):
        res = {
            "status": status,
            "error": error,
            "evaluations": self.evaluations,
            "nontrivial": sorted(self.nontrivial),
            "classes": self.classes,
            "discards": self.discards,
            "known_hits": self.known_hits,
            "known_samples": self.known_samples,
            "samples": self.nt_samples + self.samples,
            "engines": self.engines,
            "skipped_budget": self.skipped_budget,
            "extra": self.extra,
            "wall_s": time.time() - self.t0,
        }
        if self.violation is not None:
            case, out = self.violation
            res["violation"] = {"case": case, "clause": out.clause, "detail": out.detail}
        with open(path + ".tmp", "w") as fh:
            json.dump(res, fh, default=_json_default)
        os.replace(path + ".tmp", path)


def _json_default(o):
    try:
        import numpy as np

        if isinstance(o, np.generic):
            return o.item()
        if isinstance(o, np.ndarray):
            return o.tolist()
    except Exception:
        pass
    return str(o)


def run_case(mod, case):
    """check_case with library exceptions / oracle failures turned into outcomes."""
    try:
        out = mod.check_case(case)
    except Violation as v:
        return Outcome.violation(v.clause, v.detail)
    except lib.LibError as le:
        return Outcome.violation(le.clause, str(le))
    if not isinstance(out, Outcome):
        raise RuntimeError("check_case returned %r" % (out,))
    return out


def _confirm_or_fail(mod, rec):
    """Hypothesis ended without re-raising although a violating case is on record (e.g. the failure happened in a
    state machine's teardown).  Re-execute the recorded case directly: a reproducible violation is reported, anything
    else is a harness error."""
    case, out = rec.violation
    again = run_case(mod, case)
    if again.status == "violation":
        rec.violation = (case, again)
        return
    if rec.first_violation is not None:
        case1, _ = rec.first_violation
        again1 = run_case(mod, case1)
        if again1.status == "violation":
            rec.violation = (case1, again1)
            return
    raise RuntimeError("violation did not reproduce: %r" % (rec.violation,))


def load_module(pid):
    return importlib.import_module("pbt.props.%s" % pid.lower())


def main(argv):
    pid, tier, seed, shard, nshards, outpath = argv[0], argv[1], int(argv[2]), int(argv[3]), int(argv[4]), argv[5]
    lib.setup()
    workdir = os.path.dirname(os.path.abspath(outpath))
    os.chdir(workdir)
    mod = load_module(pid)
    budget = mod.BUDGET[tier]
    rec = Recorder(mod, budget.get("max_wall", 600 if tier == "quick" else 3000))
    try:
        _run(mod, pid, tier, seed, shard, nshards, budget, rec)
    except Exception:
        rec.dump(outpath, "harness_error", traceback.format_exc())
        sys.stderr.write(traceback.format_exc())
        return 2
    rec.dump(outpath, "violation" if rec.violation else "ok")
    return 0


def _run(mod, pid, tier, seed, shard, nshards, budget, rec):
    import hypothesis
    from hypothesis import HealthCheck, Phase, given, settings
    from hypothesis.stateful import run_state_machine_as_test

    # (1) regression replay
    if shard == 0:
        n = 0
        for f in sorted(glob.glob(os.path.join(lib.VERIF_DIR, "regressions", pid, "*.json"))):
            with open(f) as fh:
                doc = json.load(fh)
            case = doc["case"] if "case" in doc and "property" in doc else doc
            out = run_case(mod, case)
            rec.record(case, out, engine="regression")
            n += 1
            if out.status == "violation":
                rec.extra["regression_file"] = f
                return
        rec.extra["regressions_replayed"] = n

    # (2) bounded exhaustive enumeration
    if hasattr(mod, "enumerate_cases"):
        count = 0
        for i, case in enumerate(mod.enumerate_cases(tier)):
            if i % nshards != shard:
                continue
            out = run_case(mod, case)
            rec.record(case, out, engine="exhaustive")
            count += 1
            if out.status == "violation":
                return
        rec.extra["exhaustive_cases"] = count

    examples = max(1, budget["examples"] // nshards)
    hseed = seed * 1000 + shard
    phases = [Phase.generate, Phase.shrink]
    common = dict(
        database=None,
        deadline=None,
        derandomize=False,
        report_multiple_bugs=False,
        suppress_health_check=list(HealthCheck),
        phases=phases,
        verbosity=hypothesis.Verbosity.quiet,
    )

    # (3a) @given over JSON-able cases
    if hasattr(mod, "strategy"):
        strat = mod.strategy(tier, shard, nshards) if getattr(mod, "SHARDED_STRATEGY", False) else mod.strategy(tier)

        @hypothesis.seed(hseed)
        @settings(max_examples=examples, **common)
        @given(strat)
        def prop(case):
            if rec.violation is None and rec.over_budget():
                rec.skipped_budget += 1
                return
            out = run_case(mod, case)
            rec.record(case, out)
            if out.status == "violation":
                raise PropertyViolation(out.clause)

        try:
            prop()
        except PropertyViolation:
            return
        except BaseException as exc:  # noqa
            # Hypothesis reports "flaky" when a failing case passes on re-execution.  With a violation on record this means the
            # library's behaviour depends on what ran before in the process (hidden global state) - itself a violation of the
            # properties; the FIRST violating case is reported (it fails when executed after its predecessors).
            import hypothesis.errors as he

            flaky = isinstance(exc, (he.Flaky,)) or type(exc).__name__ in ("FlakyFailure", "ExceptionGroup", "BaseExceptionGroup")
            if flaky and rec.first_violation is not None:
                rec.violation = rec.first_violation
                rec.extra["flaky_replay"] = "the violating case did not fail again when re-executed in the same process: outcome depends on process history"
                return
            raise
        if rec.violation is not None:
            _confirm_or_fail(mod, rec)
            return

    # (3b) stateful machines
    if hasattr(mod, "make_machine"):
        m_examples = max(1, budget.get("machines", budget["examples"]) // nshards)
        Machine = mod.make_machine(tier, rec)
        st_settings = settings(max_examples=m_examples, stateful_step_count=budget.get("steps", 30), **common)
        try:
            run_state_machine_as_test(hypothesis.seed(hseed + 500)(Machine), settings=st_settings)
        except (Violation, lib.LibError, PropertyViolation):
            if rec.violation is None:
                raise
            return
        if rec.violation is not None:
            _confirm_or_fail(mod, rec)
            return

    # (4) extra engines (atheris etc.)
    if hasattr(mod, "extra_engine"):
        mod.extra_engine(tier, seed, shard, nshards, rec, run_case)


if __name__ == "__main__":
    sys.exit(main(sys.argv[1:]))
