#!/bin/bash
# Offline setup: nothing is fetched.  hypothesis is already in /venv on this image (the pip call is then a no-op);
# atheris (cp312 wheel from the offline wheelhouse) goes to /verif/.deps.
cd "$(dirname "$0")"
export PIP_NO_INDEX=1
/venv/bin/python -c "import hypothesis" 2>/dev/null || /venv/bin/pip install --no-index --find-links /opt/veriftools/wheels hypothesis
PYTHONPATH=.deps /venv/bin/python -c "import atheris" 2>/dev/null || /venv/bin/pip install --no-index --find-links /opt/veriftools/wheels --target .deps atheris
mkdir -p .work evidence replays
exit 0
