#!/venv/bin/python
"""Regenerates /verif/MANIFEST.json from the table below and validates it against the schema."""
import json
import os
import sys

HERE = os.path.dirname(os.path.dirname(os.path.abspath(__file__)))

# id -> (technique, level text, level note, design ref)
CHECKS = {
    "C01": (
        "Hypothesis-generated + bounded-exhaustive weight matrices / feature sets; oracle = Bellman-Ford minimax fix point and forest validity predicate",
        "Exploration: every generated training set (tied, tie-free, float pre-computed matrices; feature data under 41 metrics) and every symmetric matrix over 3 levels on 3-4 nodes (5 in thorough) is fitted; costs must equal an independent fix-point computation exactly and the predecessor forest / conquest order must satisfy the statement's predicates.",
        "Trusted: the reference fix point in pbt/common/oracles.py; prototypes are read from the model (C02 decides them).",
        "DESIGN.md section 6, C01",
    ),
    "C02": (
        "Hypothesis + bounded-exhaustive; oracle = enumeration of all spanning trees (Pruefer) for n<=7, unique Kruskal MST when tie-free, perturbed-weight Kruskal necessary conditions beyond",
        "Exploration: the flagged prototype set must be induced by some minimum spanning tree; decided exactly for every tie pattern on <= 7 labeled nodes and for tie-free matrices of any size, by necessary conditions for larger tied matrices.",
        "Trusted: tree enumeration / Kruskal in pbt/common/oracles.py.",
        "DESIGN.md section 6, C02",
    ),
    "C03": (
        "Hypothesis + bounded-exhaustive fitted models x queries; oracle = exhaustive arg-min scan of max(cost, distance) from outside",
        "Exploration: for every generated fitted supervised / semi-supervised model and query the returned label must belong to the exhaustive arg-min label set (exact comparison).",
        "Trusted: costs / assigned labels read from the model (C01, C15).",
        "DESIGN.md section 6, C03",
    ),
    "C06": (
        "Hypothesis over (identifier, vectors in domain, resolution path); oracle = closed forms evaluated in 60-digit decimal arithmetic with a stated rounding tolerance; acceptance-set differential registry vs. four constructors",
        "Exploration: per identifier hundreds (quick) / thousands (thorough) of vector pairs of lengths 1..64 are compared with the published closed form; the accepted-name set is compared with the registry on table names, near-misses and random text.",
        "Trusted: the closed-form table pbt/common/metrics.py (DESIGN.md section 5) and its tolerance model.",
        "DESIGN.md sections 5 and 6, C06",
    ),
    "C08": (
        "Hypothesis over (identifier, triples in the C08 domain with forced classes); oracle = the axiom table (finite / symmetric / non-negative / zero self-distance / triangle)",
        "Exploration: per identifier hundreds / thousands of triples including identical, parallel, zero-containing, all-zero, 1-ulp-apart and extreme-magnitude vectors are checked against the axioms the table claims for it.",
        "Trusted: axiom table and tolerance model in pbt/common/metrics.py.",
        "DESIGN.md sections 5 and 6, C08",
    ),
    "C12": (
        "Hypothesis over sample sets / tied matrices x k x heights; oracle = sorted-distance reference for the k-NN lists, radius, per-rank maxima and bound, and the statement's density model",
        "Exploration: neighbour lists, radii, per-rank maxima, the density bound (with its 1e-5 fallback), constant, pdf, stored range, affine map, initial costs and maxima elimination are recomputed from outside for every generated sub-graph (duplicates, lattice ties, k > n-1 included).",
        "Trusted: reference computations in pbt/props/c12.py; mapped densities compared with a conditioning-aware tolerance.",
        "DESIGN.md section 6, C12",
    ),
    "C13": (
        "Hypothesis over KNN-supervised / unsupervised training sets; oracle = cluster-forest validity predicate decided from outside (distances, densities, predecessor links)",
        "Exploration: every generated fit is checked against the forest predicates of the statement (acyclic, recorded root, label/cluster of root, root cost, link cost min rule, strictly above density-1, graph neighbour by distance, density below root+1, cluster numbering, label propagation).",
        "Trusted: densities are read from the model (C12 decides them); neighbour clause is a necessary condition under k-th-distance ties.",
        "DESIGN.md section 6, C13",
    ),
    "C14": (
        "Hypothesis over fitted models x queries at batch positions below and above n_train; oracle = tie-aware admissible set of the exhaustive k-nearest max-min rule",
        "Exploration: for every generated model and query the returned label (and cluster) must be admissible under the exhaustive rule computed from outside, at two different batch positions.",
        "Trusted: cost / labels / constant / density range read from the model; both divisors k and k+1 accepted for the query density.",
        "DESIGN.md section 6, C14",
    ),
    "C16": (
        "Hypothesis over fits with max_k >= 2; criterion observed by wrapping opf_accuracy / _normalized_cut from outside; oracle = first arg-max / arg-min over the recorded candidates + reference accuracy + final model consistency",
        "Exploration: the recorded candidate sequence must be complete (1..max_k; min_k.. contiguous with early stop only after a zero cut), best_k must be the smallest optimal candidate, and the final model's stored density range and conquest arcs must correspond to best_k.",
        "Trusted: cut values as the library computes them; accuracy re-computed with the C20 reference.",
        "DESIGN.md section 6, C16",
    ),
    "C15": (
        "Hypothesis + bounded-exhaustive labeled+unlabeled sets (incl. bridge data); oracle = C01 fix point and forest predicate on the union graph, C02 oracle on the labeled sub-graph, differential vs SupervisedOPF for an empty unlabeled set",
        "Exploration: as C01/C02 on the union graph; with an empty unlabeled set every node field, the conquest order and predictions must equal supervised training.",
        "Trusted: reference oracles of C01/C02.",
        "DESIGN.md section 6, C15",
    ),
    "C20": (
        "Hypothesis over label/prediction vectors and matrices; oracle = the statement's definitions in exact rational arithmetic",
        "Exploration: accuracy, bounds, the ==1 equivalences, confusion matrix, recall, purity and z-scores are recomputed from the definitions for thousands (quick) / 200k (thorough) vectors.",
        "Trusted: the rational-arithmetic reference in pbt/props/c20.py; population standard deviation.",
        "DESIGN.md section 6, C20",
    ),
    "C04": (
        "Hypothesis over tie-free feature sets x 41 eligible metrics (premise verified on the externally evaluated matrix) and arbitrary KNN training sets; oracle = assigned label == true label, predict(X_train) == Y_train",
        "Exploration: zero resubstitution error is checked for every generated tie-free training set under each eligible metric (supervised) and for arbitrary, heavily tied data including identical points with different labels (KNN-supervised).",
        "Trusted: eligibility list = symmetric dissimilarity rows of the metric table; premise discards are counted in the evidence.",
        "DESIGN.md section 6, C04",
    ),
    "C07": (
        "Hypothesis-generated call histories (operation lists: evaluate / fit / predict / pre_compute / get_distances / fit-twice) interpreted against a byte-level model of the caller's arrays and a memo table of first results",
        "Exploration: after every operation of every generated history all caller-owned arrays must be bit-identical to their pristine copies, repeated evaluations must be bit-identical to the first, and two fresh fits on equal data must agree on all state and predictions.",
        "Trusted: numpy tobytes() as the observation of caller data.",
        "DESIGN.md section 6, C07",
    ),
    "C09": (
        "Hypothesis-generated predict histories (lists of batches with repetition, permutation, padding beyond n_train) on one fitted model of each kind; oracle = first-observation table per sample + model state unchanged",
        "Exploration: the same sample must receive the same label (and cluster) at every batch position, in every batch and after any number of earlier predict calls; node costs / labels / predecessors must not change.",
        "Trusted: sample identity = feature bytes (or matrix row id for pre-computed distances).",
        "DESIGN.md section 6, C09",
    ),
    "C10": (
        "Hypothesis over data sets x all 47 metrics x .txt/.csv x index splits; differential oracle: model on the distance file written by pre_compute_distance vs. model on features (exact equality), plus get_distances vs. metric",
        "Exploration: file round trip exact; every node field, conquest order, best_k, n_clusters, predictions and clusters equal between the two models for supervised, semi-supervised and unsupervised; reported distance matrix equals the metric on every ordered pair (and its min-max rescaling).",
        "Trusted: exact float64 round trip of np.savetxt's default format.",
        "DESIGN.md section 6, C10",
    ),
    "C11": (
        "Hypothesis over tie-free point sets by construction x permutations x the five Euclidean-family identifiers; metamorphic oracle (permutation / monotone rescaling)",
        "Exploration: per generated case 5 base fits + 5 permuted fits are compared field by field and on predictions; premise verified on the evaluated matrices.",
        "Trusted: premise check on float matrices; discards counted.",
        "DESIGN.md section 6, C11",
    ),
    "C17": (
        "Hypothesis over train/validation sets x iteration counts x RNG seeds; recording sub-class of SupervisedOPF observes every fit/predict; oracles: multiset conservation, reference accuracies + differential against a fresh fit of the best iteration, arg-min/ancestor-closure matching for relevance flags, sub-multiset + retained==relevant for prune",
        "Exploration: learn / relevance / prune are exercised on thousands of generated sets with random swap choices; every clause of the statement is decided by an oracle independent of the implementation. Pruning runs that hit known finding K1 (single-class retained set) are evaluated up to the crash and counted.",
        "Trusted: recording sub-class defined in pbt/props/c17.py; with tied arg-mins any consistent conqueror choice is accepted.",
        "DESIGN.md section 6, C17 and section 7.2 (K1)",
    ),
    "C18": (
        "Hypothesis over data sets / percentages / seeds / struct-built binary OPF files / label columns (+ atheris byte-driven files in thorough); oracles: partition + pairing + determinism + merge round trip, exact float32 round trip across three formats, rejection iff non-sequential labels",
        "Exploration: thousands of generated splits, binary files (full finite float32 range, arbitrary ids, 1..30 samples) and label columns are pushed through the public functions and compared with the stored values exactly.",
        "Trusted: struct-based reference writer of the binary format in pbt/props/c18.py.",
        "DESIGN.md section 6, C18",
    ),
    "C19": (
        "Hypothesis over model kind x 47 metrics x pre-computed or not x training data; round-trip oracle: snapshot before save == after save == snapshot of a default-constructed model after load; predictions equal",
        "Exploration: every generated fitted model is saved and loaded into a fresh default-constructed model; full state (nodes, order, scalars, metric name and function behaviour, pre-computed matrix) and predictions on probe batches must be identical, and saving must not alter the original.",
        "Trusted: snapshot function in pbt/props/c19.py covers the state the predict methods read.",
        "DESIGN.md section 6, C19",
    ),
    "C05": (
        "Hypothesis RuleBasedStateMachine + bounded-exhaustive DFS of histories + atheris (libFuzzer) byte-decoded histories, all against a dict reference model",
        "Exploration: generated and (for capacity<=3, costs {0,1,2}, depth<=5/6) exhaustively enumerated operation histories are executed on the real Heap and on a dict model; after every step the returned element, failure reports, emptiness/fullness and colours must agree, and a final drain must return every queued element once in order. No claim beyond the explored histories.",
        "Trusted: the dict model in pbt/props/c05.py; ids < capacity and no duplicate insertion of a queued id (callers' usage).",
        "DESIGN.md section 6, C05",
    ),
}

PENDING_REASON = "check not built yet in this revision of /verif (planned, see DESIGN.md section 6); not claimed until its quick command is registered"


def main():
    props = [json.loads(l) for l in open(os.path.join(HERE, "properties.jsonl"))]
    ids = [p["id"] for p in props]
    checks = []
    for pid in ids:
        if pid not in CHECKS:
            continue
        tech, text, note, ref = CHECKS[pid]
        checks.append({
            "property_id": pid,
            "quick_cmd": "./check %s --tier quick" % pid,
            "thorough_cmd": "./check %s --tier thorough" % pid,
            "evidence_file": "/verif/evidence/%s.json" % pid,
            "replay_cmd_template": "./check %s --replay {path}" % pid,
            "engine": "pbt",
            "level_claimed": {"category": "exploration", "text": text, "design_ref": ref},
            "level_note": note,
            "technique": tech,
        })
    na = [{"property_id": pid, "reason": NOT_APPLICABLE.get(pid, PENDING_REASON)} for pid in ids if pid not in CHECKS]
    man = {
        "version": 1,
        "setup_cmd": "./setup.sh",
        "hooks": {
            "guard": "OPFYTHON_VERIF",
            "enable": "no source hooks exist: every observation point is reachable from outside (public attributes, sub-classing, wrapping module functions); checks import /repo's working tree directly (VERIF_REPO overrides the path for mutant runs)",
            "baseline_off_cmd": "cd /repo && /venv/bin/python -m pytest -ra -q -p no:cacheprovider --timeout=900 --continue-on-collection-errors",
            "source_commits": [],
            "add_only": True,
        },
        "engines": [
            {"name": "pbt", "path": "/verif/pbt", "serves_properties": sorted(CHECKS), "kind_free_text": "property-based testing (Hypothesis @given + RuleBasedStateMachine), bounded-exhaustive enumeration, atheris coverage-guided fuzzing; explicit reference-model / round-trip / metamorphic oracles; shrunk failures written as JSON replay files"},
        ],
        "checks": checks,
        "notes": "Every check: ./check <ID> --tier quick|thorough; honours VERIF_SEED; exit 0 ok, 1 VIOLATION, 2 harness error (no verdict). Known findings live in /verif/known_findings.json.",
        "not_applicable": na,
    }
    path = os.path.join(HERE, "MANIFEST.json")
    with open(path, "w") as fh:
        json.dump(man, fh, indent=1)
        fh.write("\n")
    try:
        import jsonschema

        jsonschema.validate(man, json.load(open("/root/.vp/MANIFEST.schema.json")))
        print("MANIFEST.json valid; %d checks, %d not claimed" % (len(checks), len(na)))
    except ImportError:
        print("jsonschema not available under this interpreter; wrote MANIFEST.json unvalidated")


NOT_APPLICABLE = {}

if __name__ == "__main__":
    main()
