#!/venv/bin/python
"""Regenerates /verif/MANIFEST.json from the table below and validates it against the schema."""
import json
import os
import sys

HERE = os.path.dirname(os.path.dirname(os.path.abspath(__file__)))

# id -> (technique, level text, level note, design ref)
CHECKS = {
    "C05": (
        "Hypothesis RuleBasedStateMachine + bounded-exhaustive DFS of histories + atheris (libFuzzer) byte-decoded histories, all against a dict reference model",
        "Exploration: generated and (for capacity<=3, costs {0,1,2}, depth<=5/6) exhaustively enumerated operation histories are executed on the real Heap and on a dict model; after every step the returned element, failure reports, emptiness/fullness and colours must agree, and a final drain must return every queued element once in order. No claim beyond the explored histories.",
        "Trusted: the dict model in pbt/props/c05.py; ids < capacity and no duplicate insertion of a queued id (callers' usage).",
        "DESIGN.md section 6, C05",
    ),
}

PENDING_REASON = "check not built yet in this revision of /verif (planned, see DESIGN.md section 6); not claimed until its quick command is registered"


def main():
    props = [json.loads(l) for l in open(os.path.join(HERE, "properties.jsonl"))]
    ids = [p["id"] for p in props]
    checks = []
    for pid in ids:
        if pid not in CHECKS:
            continue
        tech, text, note, ref = CHECKS[pid]
        checks.append({
            "property_id": pid,
            "quick_cmd": "./check %s --tier quick" % pid,
            "thorough_cmd": "./check %s --tier thorough" % pid,
            "evidence_file": "/verif/evidence/%s.json" % pid,
            "replay_cmd_template": "./check %s --replay {path}" % pid,
            "engine": "pbt",
            "level_claimed": {"category": "exploration", "text": text, "design_ref": ref},
            "level_note": note,
            "technique": tech,
        })
    na = [{"property_id": pid, "reason": NOT_APPLICABLE.get(pid, PENDING_REASON)} for pid in ids if pid not in CHECKS]
    man = {
        "version": 1,
        "setup_cmd": "./setup.sh",
        "hooks": {
            "guard": "OPFYTHON_VERIF",
            "enable": "no source hooks exist: every observation point is reachable from outside (public attributes, sub-classing, wrapping module functions); checks import /repo's working tree directly (VERIF_REPO overrides the path for mutant runs)",
            "baseline_off_cmd": "cd /repo && /venv/bin/python -m pytest -ra -q -p no:cacheprovider --timeout=900 --continue-on-collection-errors",
            "source_commits": [],
            "add_only": True,
        },
        "engines": [
            {"name": "pbt", "path": "/verif/pbt", "serves_properties": sorted(CHECKS), "kind_free_text": "property-based testing (Hypothesis @given + RuleBasedStateMachine), bounded-exhaustive enumeration, atheris coverage-guided fuzzing; explicit reference-model / round-trip / metamorphic oracles; shrunk failures written as JSON replay files"},
        ],
        "checks": checks,
        "notes": "Every check: ./check <ID> --tier quick|thorough; honours VERIF_SEED; exit 0 ok, 1 VIOLATION, 2 harness error (no verdict). Known findings live in /verif/known_findings.json.",
        "not_applicable": na,
    }
    path = os.path.join(HERE, "MANIFEST.json")
    with open(path, "w") as fh:
        json.dump(man, fh, indent=1)
        fh.write("\n")
    try:
        import jsonschema

        jsonschema.validate(man, json.load(open("/root/.vp/MANIFEST.schema.json")))
        print("MANIFEST.json valid; %d checks, %d not claimed" % (len(checks), len(na)))
    except ImportError:
        print("jsonschema not available under this interpreter; wrote MANIFEST.json unvalidated")


NOT_APPLICABLE = {}

if __name__ == "__main__":
    main()
