#!/usr/bin/env python3
"""tools/gen_catch_table.py : rewrite the catch table of DESIGN.md section 12.3 from /verif/seeded/*/meta.json.

The table sits between the header row '| change | what was changed | ...' and the next blank line.  Per change: first 190
characters of the summary, first 150 of what it needs to manifest, and the oracle clause that fired in the quick tier at seed 1
(results.quick), or which other property's check caught it (results.quick_other_property), or 'not caught' with the section
that explains why (meta key not_caught_ref).
"""
import glob
import json
import os
import re
import sys

ROOT = os.path.join(os.path.dirname(os.path.abspath(__file__)), "..")


def clause(outlines):
    for l in outlines:
        m = re.search(r"clause: (\S+)", l)
        if m:
            return m.group(1)
    return "?"


def one_line(s, n):
    return " ".join(str(s).split()).replace("|", "/")[:n]


def main():
    rows = []
    home = cross = missed = 0
    for d in sorted(glob.glob(os.path.join(ROOT, "seeded", "C*-*"))):
        meta = json.load(open(os.path.join(d, "meta.json")))
        res = meta.get("results", {})
        q = res.get("quick", {})
        if q.get("caught"):
            cell = "`%s`" % clause(q.get("output", []))
            home += 1
        elif res.get("quick_other_property", {}).get("caught"):
            cell = "not by the home check; caught by **%s**" % res["quick_other_property"]["check"]
            cross += 1
        else:
            cell = "**not caught** (%s)" % meta.get("not_caught_ref", "12.4")
            missed += 1
        rows.append("| %s | %s | %s | %s |" % (os.path.basename(d), one_line(meta.get("summary", ""), 190), one_line(meta.get("needs_to_manifest", ""), 150), cell))
    p = os.path.join(ROOT, "DESIGN.md")
    lines = open(p).read().split("\n")
    start = next(i for i, l in enumerate(lines) if l.startswith("| change | what was changed"))
    end = start
    while end < len(lines) and lines[end].strip():
        end += 1
    lines[start + 2:end] = rows
    open(p, "w").write("\n".join(lines))
    print("home %d, other property %d, not caught %d, total %d" % (home, cross, missed, len(rows)))


if __name__ == "__main__":
    sys.exit(main())
