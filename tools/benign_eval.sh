#!/bin/bash
# tools/benign_eval.sh <dir-with-patch.diff> [ids]  : applies a behaviour-preserving change to a scratch copy and runs checks (default: all);
# every check must stay green.
set -u
cd "$(dirname "$0")/.."
DIR=$1; IDS=${2:-}
[ -z "$IDS" ] && IDS=$(python3 -c "import json;print(','.join(c['property_id'] for c in json.load(open('MANIFEST.json'))['checks']))")
D=$(mktemp -d /tmp/opf-benign-XXXXXX)
rsync -a --exclude .git --exclude '*.log' --exclude __pycache__ --exclude OUT /repo/ $D/
( cd $D && git apply --whitespace=nowarn "$DIR/patch.diff" ) || { echo "PATCH DOES NOT APPLY"; rm -rf $D; exit 3; }
( cd $D && PYTHONPATH=$D /venv/bin/python -m pytest -q -p no:cacheprovider --timeout=900 2>&1 | tail -1 )
IFS=',' read -ra A <<< "$IDS"
for i in "${A[@]}"; do
  out=$(VERIF_REPO=$D ./check $i --tier quick 2>&1); rc=$?
  echo "check $i: rc=$rc $(echo "$out" | grep -E '^clause:' | head -1 | cut -c1-120) $(echo "$out" | grep -E '^detail:' | head -1 | cut -c1-220)"
done
rm -rf $D
