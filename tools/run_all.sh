#!/bin/bash
# tools/run_all.sh [tier] [ids...] : run registered checks sequentially, validate evidence; summary at the end
cd "$(dirname "$0")/.."
TIER=${1:-quick}; shift
IDS="$@"
[ -z "$IDS" ] && IDS=$(python3 -c "import json;print(' '.join(c['property_id'] for c in json.load(open('MANIFEST.json'))['checks']))")
for i in $IDS; do
  s=$(date +%s)
  ./check $i --tier $TIER > .work/last_$i.txt 2>&1; rc=$?
  e=$(( $(date +%s) - s ))
  v=$(python3-vt -c "
import json,jsonschema
try:
    jsonschema.validate(json.load(open('evidence/$i.json')), json.load(open('/root/.vp/EVIDENCE.schema.json'))); print('evidence-ok')
except Exception as ex: print('EVIDENCE-INVALID', str(ex)[:80])")
  echo "$i rc=$rc ${e}s $v $(grep -E 'VIOLATION|KNOWN-FINDING|HARNESS' .work/last_$i.txt | head -3 | tr '\n' ' ')"
done
