#!/bin/bash
# tools/seeded_eval.sh <dir-with-patch.diff[+demo.py]> <ID[,ID..]> [tier] [--full]
# Applies the patch to a scratch copy of /repo (outside /repo and /verif), optionally (--full) confirms that the repository's
# test suite passes with it and that demo.py fails with / passes without the change, then runs the listed checks against the copy.
set -u
DIR=$1; IDS=$2; TIER=${3:-quick}; FULL=${4:-}
D=$(mktemp -d /tmp/opf-seed-XXXXXX)
rsync -a --exclude .git --exclude '*.log' --exclude __pycache__ --exclude OUT /repo/ $D/
( cd $D && git apply --whitespace=nowarn "$DIR/patch.diff" ) || { echo "PATCH DOES NOT APPLY"; rm -rf $D; exit 3; }
if [ "$FULL" = "--full" ]; then
  ( cd $D && PYTHONPATH=$D /venv/bin/python -m pytest -q -p no:cacheprovider --timeout=900 2>&1 | tail -1 )
  if [ -f "$DIR/demo.py" ]; then
    ( cd /tmp && PYTHONPATH=$D /venv/bin/python "$DIR/demo.py" >/dev/null 2>&1; echo "demo on patched tree: rc=$?" )
    ( cd /tmp && PYTHONPATH=/repo /venv/bin/python "$DIR/demo.py" >/dev/null 2>&1; echo "demo on clean tree:   rc=$?" )
  fi
fi
IFS=',' read -ra A <<< "$IDS"
for i in "${A[@]}"; do
  out=$(VERIF_REPO=$D /verif/check $i --tier $TIER 2>&1); rc=$?
  echo "check $i ($TIER): rc=$rc $(echo "$out" | grep -E '^clause:' | head -1 | cut -c1-160)"
  echo "$out" | grep -E '^detail:' | head -1 | cut -c1-300
done
rm -rf $D
