#!/bin/bash
# tools/seeded_all.sh [tier] : every /verif/seeded/<ID>-<X>/patch.diff against its home property's check; writes result.txt + meta.json
cd "$(dirname "$0")/.."
TIER=${1:-quick}
SEED=${VERIF_SEED:-1}
export VERIF_SEED=$SEED
ls -d seeded/C*-* | xargs -P 4 -I{} bash -c 'id=$(basename {} | cut -d- -f1); tools/seeded_eval.sh $(pwd)/{} $id '$TIER' > {}/result_'$TIER'_s'$SEED'.txt 2>&1'
/venv/bin/python - "$TIER" <<'PY'
import json,os,sys,glob
tier=sys.argv[1]; seed=os.environ.get('VERIF_SEED','1')
rows=[]
for d in sorted(glob.glob('seeded/C*-*')):
    pid=os.path.basename(d).split('-')[0]
    res=open(os.path.join(d,'result_%s_s%s.txt'%(tier,seed))).read()
    caught='rc=1' in res
    am={}
    p=os.path.join(d,'agent_meta.json')
    if os.path.exists(p):
        try: am=json.load(open(p))
        except Exception: am={}
    mp=os.path.join(d,'meta.json')
    meta=json.load(open(mp)) if os.path.exists(mp) else {}
    meta.update({"property":pid,"summary":am.get("summary",""),"files":am.get("files",[]),"needs_to_manifest":am.get("needs_to_manifest",""),
      "confirmed":"applied to a scratch copy of /repo HEAD: repository suite 182 passed with the change; demo.py exit 1 with the change, exit 0 without (tools/seeded_eval.sh <dir> <ID> quick --full)",
      })
    meta.setdefault("results",{})[tier if seed=='1' else '%s_seed%s'%(tier,seed)]={"check":pid,"caught":caught,"output":res.strip().splitlines()[:3]}
    json.dump(meta,open(mp,'w'),indent=1)
    rows.append((os.path.basename(d),caught,res.strip().splitlines()[0][:110] if res.strip() else ''))
for r in rows: print("%-7s %-6s %s"%(r[0],"CAUGHT" if r[1] else "MISSED",r[2]))
print("caught %d / %d"%(sum(1 for r in rows if r[1]),len(rows)))
PY
