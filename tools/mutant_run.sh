#!/bin/bash
# tools/mutant_run.sh <ID> <file-relative-to-repo> <python-regex-from> <to> [tier]
# Applies one textual mutation to a scratch copy of /repo (outside /repo and /verif), runs ./check <ID> against it, removes the copy.
set -u
ID=$1; FILE=$2; FROM=$3; TO=$4; TIER=${5:-quick}
D=$(mktemp -d /tmp/opf-mut-XXXXXX)
rsync -a --exclude .git --exclude '*.log' --exclude __pycache__ /repo/ $D/
/venv/bin/python - "$D/$FILE" "$FROM" "$TO" <<'PY'
import sys,re
p,frm,to=sys.argv[1:4]
s=open(p).read()
n=len(re.findall(frm,s))
if n==0: print("MUTATION DID NOT APPLY"); sys.exit(3)
s=re.sub(frm,to,s,count=int(__import__('os').environ.get('MUT_COUNT','0')))
open(p,'w').write(s)
print("mutated %d site(s) in %s"%(n,p))
PY
rc=$?
if [ $rc -ne 0 ]; then rm -rf $D; exit $rc; fi
IFS=',' read -ra IDS <<< "$ID"
for i in "${IDS[@]}"; do
VERIF_REPO=$D /verif/check $i --tier $TIER | tail -${TAILN:-4}
done
rm -rf $D
